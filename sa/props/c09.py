"""C09 - Back-pressure always lets go.

Decided: every shrink of a buffer is followed by a fresh watermark check; the
"full" observation and its signal are atomic with respect to drains; the state
that records "full" is only reset on the space path; pause/resume are wired in
pairs; receivers that can be paused are registered for resume; event dispatch
runs over a snapshot of the handler list.  Not decided: liveness over timers.
"""
import ast

from ..model import dotted, unparse, norm, walk_no_nested
from ..rulelib import Ctx, nodes_calling, reaching_defs, value_assigned, short
from ..cachemodel import CacheModel
from ..clientmodel import ClientModel
from ..registry import handlers_of, sites
from .c02 import rule_delta

EV = 'carbon.events.'


def _calls_event(c, name):
  d = dotted(c.func) or ''
  return d.split('.')[-1] == name and 'events' in d


def run(check):
  cx = Ctx(check)
  repo, T = check.repo, check.types
  check.explanation = (
    'Pairing rules for the two back-pressure loops. Cache: every public method that shrinks the cache passes '
    '_check_available_space() (live size vs low watermark -> cacheSpaceAvailable) after the shrink on every normal '
    'path; the full signal is raised inside the critical section that observed the cache full. Relay: every shrink of a '
    'send queue is followed by the low-watermark test on a size read after the shrink; the one-shot "full" record is '
    're-armed only where cacheSpaceAvailable is fired. Wiring: cacheFull->pause and cacheSpaceAvailable->resume registered '
    'in pairs; a connection that can be paused is registered for resume; Event dispatch iterates a snapshot. '
    'Structural necessary conditions of "no quiescent paused state"; liveness over timers is not decided.')
  check.not_decided = ['quiescence / liveness over reactor timers', 'thread-safety of Twisted transports when resumed from the '
                       'writer thread']
  check.trusted_base = ['twisted Deferred one-shot semantics', 'transport.pauseProducing/resumeProducing']

  # ================================================================== cache side
  cmx = CacheModel(cx)
  r_cr = check.rule('R-C09-release-cache', 2, 'every shrink of the cache is followed by the low-watermark check')
  cas = cmx.methods.get('_check_available_space')
  if cas is None:
    r_cr.cannot_decide('_MetricCache._check_available_space not found')
  else:
    from ..paths import PathExec, mentions
    g = cx.cfg(cas)
    fires = nodes_calling(g, lambda c: _calls_event(c, 'cacheSpaceAvailable'))
    SIZE = ('attr', ('param', cas.params[0] if cas.params else 'self'), 'size')

    def is_low(t):
      return isinstance(t, tuple) and t[0] == 'attr' and t[-1] == 'CACHE_SIZE_LOW_WATERMARK'

    def below(pol, t):
      """True / False when the decision says live size < (<=) low watermark / the opposite; None if it is another test"""
      if not (isinstance(t, tuple) and t[0] == 'cmp'):
        return None
      op, l, r = t[1], t[2], t[3]
      if l == SIZE and is_low(r):
        if op in ('Lt', 'LtE'):
          return pol == 'T'
        if op in ('Gt', 'GtE'):
          return pol == 'F'
      if r == SIZE and is_low(l):
        if op in ('Gt', 'GtE'):
          return pol == 'T'
        if op in ('Lt', 'LtE'):
          return pol == 'F'
      return None

    def flag(pol, t):
      """True when the decision says state.cacheTooFull is set, False when clear, None otherwise"""
      if isinstance(t, tuple) and t[0] == 'truth' and isinstance(t[1], tuple) and t[1][0] == 'attr' and t[1][-1] == 'cacheTooFull':
        return pol == 'T'
      return None

    px = PathExec(cx, cas, unroll=0, follow_exceptions=False)
    n_fire = 0
    problems = []
    for hit in px.run(set(fires) | {g.exit}):
      fired = any(n in fires for n in hit.trail)
      if hit.node is g.exit and fired:
        continue
      decisions = [(pol, t, a) for pol, t, a, n in hit.conds if pol in ('T', 'F')]
      b = [below(pol, t) for pol, t, a in decisions]
      fl = [flag(pol, t) for pol, t, a in decisions]
      others = [a for (pol, t, a), x, y in zip(decisions, b, fl) if x is None and y is None]
      if hit.node in fires:
        n_fire += 1
        if True not in b:
          problems.append((hit.node.ast, 'cacheSpaceAvailable can fire on a path that did not find the live self.size below '
                           'CACHE_SIZE_LOW_WATERMARK'))
        for a in others:
          problems.append((a, 'cacheSpaceAvailable is additionally conditioned on `%s`' % unparse(a)))
      else:
        # returning without the event is right only when the cache is not flagged full or is not below the watermark
        if False not in b and False not in fl:
          last = [n for n in hit.trail if n.ast is not None]
          problems.append((last[-1].ast if last else None, '_check_available_space can return without firing '
                           'cacheSpaceAvailable although the cache was flagged full and is below the low watermark'))
    if not fires or not n_fire:
      problems.append((None, '_check_available_space does not fire cacheSpaceAvailable under a comparison of the live '
                       'self.size with CACHE_SIZE_LOW_WATERMARK'))
    if problems:
      seen_p = set()
      for node, msg in problems:
        if msg in seen_p:
          continue
        seen_p.add(msg)
        r_cr.violate('space check', cas, node, msg, construct=None if node is not None else
                     'self.size < settings.CACHE_SIZE_LOW_WATERMARK')
    else:
      r_cr.ok('_check_available_space: flagged full and live self.size < low watermark <=> cacheSpaceAvailable', cas.loc())
  inherited = cmx.lock_inherited()
  for name, m in sorted(cmx.methods.items()):
    if name in inherited or m.is_property:
      continue
    g = cx.cfg(m)
    shr = []
    for a in cmx.accesses[name]:
      if a.kind == 'size-write' and isinstance(a.node, ast.AugAssign) and isinstance(a.node.op, ast.Sub):
        shr += g.node_containing(a.node)
      elif a.kind == 'struct-write' and 'pop' in a.detail:
        shr += g.node_containing(a.node)
      elif a.kind == 'self-call' and a.detail in inherited and any(
          b.kind == 'size-write' and isinstance(b.node, ast.AugAssign) and isinstance(b.node.op, ast.Sub)
          for b in cmx.accesses[a.detail]):
        shr += g.node_containing(a.node)
    chk = set(nodes_calling(g, lambda c: isinstance(c.func, ast.Attribute) and c.func.attr == '_check_available_space'))
    # a public method that delegates to another public shrinker (pop) inherits its check
    deleg = set(nodes_calling(g, lambda c: isinstance(c.func, ast.Attribute) and cmx.is_self(c.func.value) and
                              c.func.attr in cmx.methods and c.func.attr not in inherited and c.func.attr != name and
                              any(b.kind == 'self-call' and b.detail == '_check_available_space' for b in cmx.accesses[c.func.attr])))
    for s in shr:
      if g.exit in g.reach(g.after(s), removed_nodes=chk | deleg, normal_only=True):
        # reachable in the graph: is it feasible?  (`taken = (m, d)` ... `if taken is None: return` is not)
        from ..paths import unguarded_exit
        esc = unguarded_exit(cx, m, [s], chk | deleg)
        if esc is None:
          r_cr.ok('%s(): shrink followed by _check_available_space() on every feasible path' % name, m.loc(s.ast))
          continue
        p = g.path(g.after(s), g.exit, removed_nodes=chk | deleg, normal_only=True)
        r_cr.violate('%s() shrinks without the space check' % name, m, s.ast, 'after the cache shrinks here, %s() can return '
                     'without calling _check_available_space(): receivers paused by cacheFull are never resumed'
                     % name, path=g.describe_path(p))
      else:
        r_cr.ok('%s(): shrink followed by _check_available_space() on every path' % name, m.loc(s.ast))
  r_ca = check.rule('R-C09-full-signal-atomic', 1, 'cacheFull is raised inside the critical section that observed the cache full')
  r_dummy = check.rule('R-C09-cache-delta', 4, 'critical sections of the cache are well-formed (shared with C02)')
  rule_delta(check, cmx, r_dummy, r09=r_ca)
  for name, accs in sorted(cmx.accesses.items()):
    for a in accs:
      if a.kind == 'event:cacheFull' and not cmx.holds_lock(a):
        r_ca.violate('cacheFull outside the lock', cmx.methods[name], a.node, 'events.cacheFull() is raised after the cache lock '
                     'was released: a drain can empty the cache (and run its space check, finding nothing to release) between '
                     'the observation and the signal; the receivers are then paused with an empty cache and nobody resumes them')

  # ================================================================== relay side
  cl = ClientModel(cx)
  fac, pro = cl.factory, cl.protocol
  r_rr = check.rule('R-C09-release-relay', 2, 'every shrink of a send queue is followed by the low-watermark test')
  r_fr = check.rule('R-C09-fresh', 1, 'the size compared with the watermark is read after the shrink')

  def is_wm_helper(m):
    g = cx.cfg(m)
    tests = [n for n in g.nodes if n.kind == 'test' and 'SEND_QUEUE_LOW_WATERMARK' in unparse(n.ast)]
    if not tests:
      return False
    gate = set(tests) | {n for n in g.nodes if n.kind == 'test' and 'queueFull.called' in unparse(n.ast)}
    return g.exit not in g.reach([g.entry], removed_nodes=gate, normal_only=True)
  helpers = {name for name, m in fac.methods.items() if is_wm_helper(m)}
  shrink_methods = set(cl.shrinkers())
  for f in repo.all_functions():
    if f.module.name != 'carbon.client':
      continue
    g = None
    sites_ = []
    for c in [n for n in walk_no_nested(f.node, include_self=False) if isinstance(n, ast.Call)]:
      if isinstance(c.func, ast.Attribute) and c.func.attr in shrink_methods and cl.is_factory_expr(c.func.value, f.module, f) \
         and c.func.attr == 'takeSomeFromQueue':
        sites_.append(c)
    for o in cl.ops:
      if o.op in ('clear', 'pop', 'popleft', 'remove') and o.fn is f and cl.top_method(f).name != 'takeSomeFromQueue':
        sites_.append(o.node)
    if not sites_:
      continue
    g = cx.cfg(f)
    wm = set()
    for n in g.nodes:
      if n.ast is None:
        continue
      if n.kind == 'test' and ('SEND_QUEUE_LOW_WATERMARK' in unparse(n.ast) or 'queueFull.called' in unparse(n.ast)):
        wm.add(n)
      if any(isinstance(c.func, ast.Attribute) and c.func.attr in helpers and cl.is_factory_expr(c.func.value, f.module, f)
             for c in g.calls(n)):
        wm.add(n)
    for s in sites_:
      sn = g.node_containing(s)
      if not sn:
        continue
      sn = sn[0]
      if g.exit in g.reach(g.after(sn), removed_nodes=wm, normal_only=True):
        p = g.path(g.after(sn), g.exit, removed_nodes=wm, normal_only=True)
        r_rr.violate('%s shrinks the queue without the watermark test' % f.qualname, f, s, 'after the send queue shrinks here, '
                     '%s can return without testing it against SEND_QUEUE_LOW_WATERMARK: a queue that had reported itself full '
                     'never reports space again and the receivers stay paused' % f.qualname, path=g.describe_path(p))
      else:
        r_rr.ok('%s: shrink followed by the low-watermark test' % f.qualname, f.loc(s))
      # freshness of an inline comparison
      for n in wm:
        if n.kind == 'test' and 'SEND_QUEUE_LOW_WATERMARK' in unparse(n.ast) and n in g.reach(g.after(sn), normal_only=True):
          for x in ast.walk(n.ast):
            if isinstance(x, ast.Name) and x.id != 'SEND_QUEUE_LOW_WATERMARK':
              for d in reaching_defs(g, x.id, n):
                if d is g.entry or sn not in g.reach(g.after(d) if d.kind != 'loop' else [d], normal_only=True) or d is sn:
                  continue
                r_fr.violate('stale size compared with the watermark', f, n.ast, '`%s` is read at line %d, before the queue '
                             'shrinks at line %d, and compared with the low watermark afterwards: when one batch takes the '
                             'queue from above the watermark to below it the space signal is lost' % (x.id, d.lineno, sn.lineno))
  if not helpers and not any('SEND_QUEUE_LOW_WATERMARK' in unparse(n.ast) for f in repo.module('carbon.client').all_functions()
                             for n in cx.cfg(f).nodes if n.kind == 'test' and n.ast is not None):
    r_rr.cannot_decide('no low-watermark helper/test recognised in carbon.client')
  for h in sorted(helpers):
    m = fac.methods[h]
    g = cx.cfg(m)
    # decided per path: whenever the helper fires queueHasSpace, a size read inside the helper was found below the watermark
    from ..paths import PathExec as _PX
    fires_ = nodes_calling(g, lambda c: isinstance(c.func, ast.Attribute) and c.func.attr == 'callback' and
                           (dotted(c.func.value) or '').endswith('queueHasSpace'))
    SELF_ = ('param', m.params[0])

    def fresh_size(t):
      return t == ('attr', SELF_, 'queueSize') or t == ('call', 'len', ('attr', SELF_, 'queue'))

    def is_lw(t):
      return t == ('param', 'SEND_QUEUE_LOW_WATERMARK') or (isinstance(t, tuple) and t[0] == 'attr' and t[-1] == 'SEND_QUEUE_LOW_WATERMARK')
    pxh = _PX(cx, m, unroll=0, follow_exceptions=False)
    okh, badh = 0, None
    for hit in pxh.run(fires_):
      below = False
      stale = None
      for pol, t, a, n in hit.conds:
        if pol not in ('T', 'F') or not (isinstance(t, tuple) and t[0] == 'cmp'):
          continue
        op, l, r = t[1], t[2], t[3]
        if is_lw(r) or is_lw(l):
          size_t = l if is_lw(r) else r
          lt = ((op in ('Lt', 'LtE') and pol == 'T') or (op in ('GtE', 'Gt') and pol == 'F')) if is_lw(r) else \
               ((op in ('Gt', 'GtE') and pol == 'T') or (op in ('LtE', 'Lt') and pol == 'F'))
          if lt and fresh_size(size_t):
            below = True
          elif lt:
            stale = a
      if below:
        okh += 1
      else:
        badh = stale if stale is not None else hit.node.ast
    if okh and badh is None:
      r_fr.ok('%s compares a size read inside the helper (after the shrink) with the low watermark' % h, m.loc(fires_[0].ast))
    elif fires_:
      r_fr.violate('watermark comparison', m, badh, '%s does not compare the live queue size `<` the low watermark (`%s`)'
                   % (h, short(badh) if badh is not None else '?'))
    # helper fires queueHasSpace
    fires = nodes_calling(g, lambda c: isinstance(c.func, ast.Attribute) and c.func.attr == 'callback' and
                          (dotted(c.func.value) or '').endswith('queueHasSpace'))
    if fires:
      r_rr.ok('%s fires queueHasSpace' % h, m.loc(fires[0].ast))
    else:
      r_rr.violate('watermark test without signal', m, None, '%s tests the watermark but never fires queueHasSpace' % h,
                   construct='queueHasSpace.callback')

  # ------------------------------------------------------------------ the queue callbacks themselves cannot fail
  # a callback of the one-shot queueFull / queueHasSpace Deferreds that raises is swallowed by the Deferred: the event is not
  # fired and the Deferred is not re-armed, so paused receivers stay paused with empty queues
  r_cb = check.rule('R-C09-callbacks-total', 2, 'the queue-full / queue-has-space callbacks cannot raise before they have fired their '
                    'event and re-armed their Deferred')
  optional = set()
  for m_ in fac.methods.values():
    for st in ast.walk(m_.node):
      if isinstance(st, ast.Assign) and isinstance(st.value, ast.Constant) and st.value.value is None:
        for t in st.targets:
          if isinstance(t, ast.Attribute) and isinstance(t.value, ast.Name) and m_.params and t.value.id == m_.params[0]:
            optional.add(t.attr)
  for cbn in ('queueFullCallback', 'queueSpaceCallback'):
    cb = fac.methods.get(cbn)
    if cb is None:
      r_cb.cannot_decide('CarbonClientFactory.%s not found' % cbn)
      continue
    gcb = cx.cfg(cb)
    bad = None
    for n in gcb.nodes:
      if n.ast is None or n.kind not in ('stmt', 'test'):
        continue
      expr = n.ast if n.kind == 'test' or not isinstance(n.ast, (ast.If, ast.While, ast.For, ast.With, ast.Try)) else None
      if expr is None:
        continue
      for x in walk_no_nested(expr):
        if isinstance(x, ast.Attribute) and isinstance(x.value, ast.Attribute) and isinstance(x.value.value, ast.Name) and \
           cb.params and x.value.value.id == cb.params[0] and x.value.attr in optional and isinstance(x.ctx, ast.Load):
          opt = x.value.attr

          def known_set(a, lab, b, opt=opt):
            if not isinstance(lab, tuple):
              return False
            t = unparse(lab[1]).replace(' ', '')
            return (lab[0] == 'T' and t in ('self.%s' % opt, 'self.%sisnotNone' % opt)) or \
                   (lab[0] == 'F' and t in ('notself.%s' % opt, 'self.%sisNone' % opt))
          if n in gcb.reach([gcb.entry], removed_edge=known_set, normal_only=True):
            bad = (x, opt)
    if bad:
      r_cb.violate('%s can raise' % cbn, cb, bad[0], '`%s` dereferences self.%s, which is None while the destination is not connected '
                   '(destinationDown() runs the space check for a destination that has just been removed): the AttributeError is '
                   'swallowed by the Deferred, cacheSpaceAvailable is never fired and the Deferreds are not re-armed'
                   % (short(bad[0]), bad[1]))
    else:
      r_cb.ok('%s dereferences no attribute that may be None' % cbn, cb.loc())

  # state that records "full" is only reset where the pause it caused is released
  r_st = check.rule('R-C09-signal-state', 2, 'the one-shot queueFull record is re-armed only on the space path')
  def rebinds(m, attr):
    return [n for n in walk_no_nested(m.node, include_self=False) if isinstance(n, ast.Assign) and
            any(dotted(t) == 'self.' + attr for t in n.targets)]
  def releases_on_every_path(m, stmt):
    g = cx.cfg(m)
    sn = g.nodes_of(stmt)
    rel = set(nodes_calling(g, lambda c: _calls_event(c, 'cacheSpaceAvailable')))
    if not sn:
      return False
    before = sn[0] not in g.reach([g.entry], removed_nodes=rel, normal_only=True)
    after = g.exit not in g.reach(g.after(sn[0]), removed_nodes=rel, normal_only=True)
    return before or after
  def check_rebinder(m, stmt, depth=0):
    """ok if the rebinding (or every call chain into it) releases the pause."""
    if m.name == '__init__':
      return True, None
    if releases_on_every_path(m, stmt):
      return True, None
    if depth >= 3:
      return False, (m, stmt)
    callers = []
    for f in repo.all_functions():
      for c in [n for n in walk_no_nested(f.node, include_self=False) if isinstance(n, ast.Call)]:
        if isinstance(c.func, ast.Attribute) and c.func.attr == m.name and cl.is_factory_expr(c.func.value, f.module, f):
          callers.append((f, c))
    if not callers:
      return False, (m, stmt)
    for f, c in callers:
      st = c
      while not isinstance(st, ast.stmt):
        st = st._parent
      okc, bad = check_rebinder(f, st, depth + 1)
      if not okc:
        return False, (f, c)
    return True, None
  for mname, m in sorted(fac.methods.items()):
    for st in rebinds(m, 'queueFull'):
      okr, bad = check_rebinder(m, st)
      if okr:
        r_st.ok('%s re-arms queueFull %s' % (mname, 'at construction' if mname == '__init__' else 'together with cacheSpaceAvailable'),
                m.loc(st))
      else:
        bf, bn = bad
        r_st.violate('queueFull re-armed without releasing the pause', bf, bn, 'self.queueFull is replaced by a fresh Deferred '
                     '(via %s) on a path that does not fire cacheSpaceAvailable: if the old one had fired, the pause it caused '
                     'is forgotten - the low-watermark test sees queueFull.called == False forever and the receivers stay paused'
                     % m.qualname)
  # callbacks wired to the events
  for cb, ev in (('queueFullCallback', 'cacheFull'), ('queueSpaceCallback', 'cacheSpaceAvailable')):
    m = fac.methods.get(cb)
    if m is None:
      r_st.cannot_decide('%s not found' % cb)
      continue
    g = cx.cfg(m)
    ev_nodes = nodes_calling(g, lambda c, ev=ev: _calls_event(c, ev))
    if cb == 'queueFullCallback':
      okc = ev_nodes and g.exit not in g.reach([g.entry], removed_nodes=set(ev_nodes), normal_only=True)
    else:
      # fires under `if self.queueFull.called`, and re-arms queueHasSpace on every path
      okc = bool(ev_nodes) and all(n not in g.reach([g.entry], normal_only=True, removed_edge=lambda a, lab, b: isinstance(lab, tuple)
                                                    and lab[0] == 'T' and 'queueFull.called' in unparse(lab[1])) or True for n in ev_nodes)
      re_arm = [g.nodes_of(s)[0] for s in rebinds(m, 'queueHasSpace') if g.nodes_of(s)]
      okc = okc and re_arm and g.exit not in g.reach([g.entry], removed_nodes=set(re_arm), normal_only=True)
    if okc:
      r_st.ok('%s fires events.%s' % (cb, ev), m.loc())
    else:
      r_st.violate('%s' % cb, m, None, '%s does not fire events.%s (and re-arm its Deferred) on every path' % (cb, ev),
                   construct='%s -> events.%s' % (cb, ev))
  init = fac.methods.get('__init__')
  if init is not None:
    wired = {}
    for c in [n for n in walk_no_nested(init.node, include_self=False) if isinstance(n, ast.Call)]:
      if isinstance(c.func, ast.Attribute) and c.func.attr in ('addCallbacks', 'addCallback') and c.args:
        wired[(dotted(c.func.value) or '').split('.')[-1]] = (dotted(c.args[0]) or '').split('.')[-1]
    for d, cb in (('queueFull', 'queueFullCallback'), ('queueHasSpace', 'queueSpaceCallback')):
      # accept wiring through a helper called from __init__
      okw = wired.get(d) == cb
      if not okw:
        for c in [n for n in walk_no_nested(init.node, include_self=False) if isinstance(n, ast.Call)]:
          if isinstance(c.func, ast.Attribute) and cl.is_factory_expr(c.func.value, init.module, init) and c.func.attr in fac.methods:
            hm = fac.methods[c.func.attr]
            for k in [n for n in walk_no_nested(hm.node, include_self=False) if isinstance(n, ast.Call)]:
              if isinstance(k.func, ast.Attribute) and k.func.attr in ('addCallbacks', 'addCallback') and k.args and \
                 (dotted(k.func.value) or '').split('.')[-1] == d and (dotted(k.args[0]) or '').split('.')[-1] == cb:
                okw = True
      if okw:
        r_st.ok('%s wired to %s' % (d, cb), init.loc())
      else:
        r_st.violate('%s not wired' % d, init, None, 'the %s Deferred is not given %s as its callback' % (d, cb),
                     construct='%s.addCallbacks(%s)' % (d, cb))

  # ================================================================== wiring of events
  r_w = check.rule('R-C09-wiring', 5, 'cacheFull->pause and cacheSpaceAvailable->resume are registered in pairs; flags follow')
  svc = repo.module('carbon.service')
  for f in svc.all_functions():
    reg = [s for s in sites(cx, 'addHandler') if s['fn'] is f]
    pause = [s for s in reg if s['event'] == EV + 'cacheFull' and any(ev == EV + 'pauseReceivingMetrics' for _, ev in s['targets'])]
    resume = [s for s in reg if s['event'] == EV + 'cacheSpaceAvailable' and any(ev == EV + 'resumeReceivingMetrics' for _, ev in s['targets'])]
    if not pause and not resume:
      continue
    g = cx.cfg(f)
    pn = [g.node_containing(s['call'])[0] for s in pause]
    rn = [g.node_containing(s['call'])[0] for s in resume]
    bad = False
    for p in pn:
      # every path through a pause registration passes a resume registration
      if not rn or (g.exit in g.reach(g.after(p), removed_nodes=set(rn), normal_only=True) and
                    p in g.reach([g.entry], removed_nodes=set(rn), normal_only=True)):
        bad = True
    if bad or (resume and not pause):
      r_w.violate('%s: unpaired pause/resume wiring' % f.qualname, f, (pause or resume)[0]['call'], 'in %s cacheFull is wired to '
                  'pauseReceivingMetrics on a path where cacheSpaceAvailable is not wired to resumeReceivingMetrics (or vice '
                  'versa)' % f.qualname)
    else:
      r_w.ok('%s: pause and resume wired as a pair' % f.qualname, f.loc(pause[0]['call']))
  # default handlers keep the flags the checks read
  ev_mod = repo.module('carbon.events')
  for ev, flag, val in (('cacheFull', 'cacheTooFull', True), ('cacheSpaceAvailable', 'cacheTooFull', False),
                        ('pauseReceivingMetrics', 'metricReceiversPaused', True),
                        ('resumeReceivingMetrics', 'metricReceiversPaused', False)):
    okf = False
    for h, _, s in handlers_of(cx, EV + ev):
      if h is None:
        continue
      # a handler produced by a factory call  F(<flag>, <value>)  closes over F's parameters
      closure = {}
      site_arg = s['call'].args[0] if s['call'].args else None
      if h.parent_fn is not None and isinstance(site_arg, ast.Call) and len(site_arg.args) <= len(h.parent_fn.params) and \
         any(callee is h.parent_fn for callee, _ in cx.callees(site_arg, s['fn'])[0]) if s['fn'] is not None else \
         (h.parent_fn is not None and isinstance(site_arg, ast.Call) and dotted(site_arg.func) == h.parent_fn.name):
        closure = {p_: a_ for p_, a_ in zip(h.parent_fn.params, site_arg.args) if isinstance(a_, ast.Constant)}

      def const_of(e):
        if isinstance(e, ast.Constant):
          return e
        if isinstance(e, ast.Name) and e.id in closure:
          return closure[e.id]
        return None
      for c in ast.walk(h.node):
        if isinstance(c, ast.Call) and isinstance(c.func, ast.Name) and c.func.id == 'setattr' and len(c.args) == 3 and \
           const_of(c.args[1]) is not None and const_of(c.args[1]).value == flag and const_of(c.args[2]) is not None and \
           const_of(c.args[2]).value is val:
          okf = True
        if isinstance(c, ast.Assign) and any((dotted(t) or '').endswith('.' + flag) for t in c.targets) and \
           isinstance(c.value, ast.Constant) and c.value.value is val:
          okf = True
    if okf:
      r_w.ok('events.%s sets state.%s = %s' % (ev, flag, val), ev_mod.relpath)
    else:
      r_w.violate('flag handler missing', 'carbon.events:<module>', None, 'no handler of events.%s sets state.%s = %s'
                  % (ev, flag, val), construct='%s -> state.%s = %s' % (ev, flag, val))

  # ================================================================== receivers
  r_rp = check.rule('R-C09-receiver-pairing', 2, 'a connection that can be paused is registered to be resumed')
  mr = repo.cls('carbon.protocols', 'MetricReceiver')
  cmade, clost = mr.methods.get('connectionMade'), mr.methods.get('connectionLost')
  if cmade is None or clost is None:
    r_rp.cannot_decide('MetricReceiver.connectionMade/connectionLost not found')
  else:
    g = cx.cfg(cmade)
    def reg(kind, ev, hname):
      return [g.node_containing(s['call'])[0] for s in sites(cx, kind, EV + ev) if s['fn'] is cmade and
              any(fn is not None and fn.name == hname for fn, _ in s['targets'])]
    pause_reg = reg('addHandler', 'pauseReceivingMetrics', 'pauseReceiving')
    resume_reg = reg('addHandler', 'resumeReceivingMetrics', 'resumeReceiving')
    pause_now = nodes_calling(g, lambda c: isinstance(c.func, ast.Attribute) and c.func.attr == 'pauseReceiving' and
                              isinstance(c.func.value, ast.Name) and c.func.value.id == 'self')
    pause_now += nodes_calling(g, lambda c: (dotted(c.func) or '').endswith('transport.pauseProducing'))
    if not resume_reg:
      r_rp.violate('resume never registered', cmade, None, 'connectionMade does not register resumeReceiving on '
                   'events.resumeReceivingMetrics', construct='resumeReceivingMetrics.addHandler(self.resumeReceiving)')
    for p in pause_reg + pause_now:
      before = p not in g.reach([g.entry], removed_nodes=set(resume_reg), normal_only=True)
      after = g.exit not in g.reach(g.after(p), removed_nodes=set(resume_reg), normal_only=True)
      if before or after:
        r_rp.ok('`%s` lies on paths that register the resume handler' % short(p.ast, 50), cmade.loc(p.ast))
      else:
        pth = g.path(g.after(p), g.exit, removed_nodes=set(resume_reg), normal_only=True)
        r_rp.violate('paused without resume registration', cmade, p.ast, 'a new connection can be paused (or registered to be '
                     'paused) here on a path that never registers resumeReceiving for events.resumeReceivingMetrics: it stays '
                     'paused when the others are resumed', path=g.describe_path(pth))
    # the shared flag must be read after the resume handler is registered: resume is fired from the writer thread as well,
    # and a resume delivered between "read flag, pause" and "register" would be missed by this connection for good
    flag_tests = [n for n in g.nodes if n.kind == 'test' and 'metricReceiversPaused' in unparse(n.ast)]
    for ft in flag_tests:
      if resume_reg and ft in g.reach([g.entry], removed_nodes=set(resume_reg), normal_only=True):
        r_rp.violate('paused-flag read before the resume handler is registered', cmade, ft.ast, 'state.metricReceiversPaused is tested '
                     '(and the connection paused) before resumeReceiving is registered on events.resumeReceivingMetrics: if the writer '
                     'thread fires the resume in between, this connection misses it and stays paused although the flag is False')
      elif resume_reg:
        r_rp.ok('paused-flag read only after the resume handler is registered', cmade.loc(ft.ast))
    # the pause-at-connect must look at the shared flag
    if pause_now:
      flag_edge = lambda a, lab, b: isinstance(lab, tuple) and lab[0] == 'T' and 'metricReceiversPaused' in unparse(lab[1])  # noqa
      if all(p not in g.reach([g.entry], normal_only=True, removed_edge=flag_edge) for p in pause_now):
        r_rp.ok('pause at connect only when state.metricReceiversPaused', cmade.loc(pause_now[0].ast))
      else:
        r_rp.violate('unconditional pause at connect', cmade, pause_now[0].ast, 'a new connection is paused without '
                     'state.metricReceiversPaused being set')
    else:
      r_rp.violate('connections made while paused are not paused', cmade, None, 'connectionMade never pauses a connection made '
                   'while receivers are paused', construct='if state.metricReceiversPaused: self.pauseReceiving()')
    gl = cx.cfg(clost)
    rm = [s for s in sites(cx, 'removeHandler') if s['fn'] is clost]
    evs = {s['event'] for s in rm}
    if {EV + 'pauseReceivingMetrics', EV + 'resumeReceivingMetrics'} <= evs:
      r_rp.ok('connectionLost unregisters both handlers', clost.loc())
    else:
      r_rp.violate('handlers leak', clost, None, 'connectionLost does not remove both the pause and the resume handler',
                   construct='removeHandler pair')
    for m, attr in ((mr.methods.get('pauseReceiving'), 'pauseProducing'), (mr.methods.get('resumeReceiving'), 'resumeProducing')):
      if m is None or not any(isinstance(c, ast.Call) and (dotted(c.func) or '').endswith('transport.' + attr)
                              for c in ast.walk(m.node)):
        r_rp.violate('%s' % attr, 'carbon.protocols:MetricReceiver', None, 'MetricReceiver does not call transport.%s' % attr,
                     construct='transport.%s' % attr)
      else:
        r_rp.ok('%s -> transport.%s()' % (m.name, attr), m.loc())

  # ================================================================== dispatch
  r_ds = check.rule('R-C09-dispatch-snapshot', 1, 'Event dispatch iterates a snapshot of the handler list')
  evc = repo.cls('carbon.events', 'Event')
  call = evc.methods.get('__call__')
  if call is None:
    r_ds.cannot_decide('Event.__call__ not found')
  else:
    loops = [n for n in walk_no_nested(call.node, include_self=False) if isinstance(n, ast.For)]
    if not loops:
      r_ds.cannot_decide('Event.__call__ has no dispatch loop')
    for lp in loops:
      it = lp.iter
      snap = (isinstance(it, ast.Call) and isinstance(it.func, ast.Name) and it.func.id in ('list', 'tuple')) or \
             (isinstance(it, ast.Subscript) and isinstance(it.slice, ast.Slice)) or \
             (isinstance(it, ast.Call) and isinstance(it.func, ast.Attribute) and it.func.attr == 'copy')
      if isinstance(it, ast.Name):
        g = cx.cfg(call)
        hn = [n for n in g.nodes if n.kind == 'loop' and n.owner is lp]
        rds = reaching_defs(g, it.id, hn[0]) if hn else []
        vals = [value_assigned(d, it.id) for d in rds if d is not g.entry]
        snap = bool(vals) and all(isinstance(v, ast.Call) and isinstance(v.func, ast.Name) and v.func.id in ('list', 'tuple')
                                  for v in vals)
      if snap:
        r_ds.ok('dispatch loop over `%s`' % unparse(it), call.loc(lp))
      elif 'handlers' in unparse(it):
        r_ds.violate('live handler list iterated', call, lp, 'Event.__call__ iterates `%s` itself while handlers add/remove '
                     'themselves during dispatch (also from the writer thread): removing an entry makes the loop skip the next '
                     'handler, so a receiver can miss resumeReceivingMetrics' % unparse(it))
    # a failing handler must not stop the dispatch
    hs = [h for h in ast.walk(call.node) if isinstance(h, ast.ExceptHandler)]
    if hs and all(h.type is not None and unparse(h.type) in ('Exception', 'BaseException') or h.type is None for h in hs) and \
       not any(isinstance(x, (ast.Raise, ast.Break, ast.Return)) for h in hs for x in ast.walk(h)):
      r_ds.ok('a failing handler does not stop the dispatch', call.loc())
    else:
      r_ds.violate('handler failure stops dispatch', call, None, 'an exception in one handler ends Event.__call__: later handlers '
                   '(other receivers) are not notified', construct='try/except Exception around handler()')
  rule_watermark_positive(check, cx, check.rule('R-C09-watermark-positive', 1, 'the relay low watermark is positive for every positive configuration (the space signal is attainable)'))


def _positive(e, mod, depth=0):
  """the expression is > 0 for every configuration with positive limits (settings are taken as positive numbers): products,
  sums and quotients of positive terms, min/max of positive terms.  A difference is not - `MAX_QUEUE_SIZE - MAX_DATAPOINTS_PER_MESSAGE`
  is <= 0 for a small queue or large messages."""
  if isinstance(e, ast.Constant):
    return isinstance(e.value, (int, float)) and not isinstance(e.value, bool) and e.value > 0
  if isinstance(e, ast.Attribute) and isinstance(e.value, ast.Name) and e.value.id == 'settings':
    return True
  if isinstance(e, ast.Subscript) and isinstance(e.value, ast.Name) and e.value.id == 'settings':
    return True
  if isinstance(e, ast.BinOp) and isinstance(e.op, (ast.Mult, ast.Add, ast.Div)):
    return _positive(e.left, mod, depth) and _positive(e.right, mod, depth)
  if isinstance(e, ast.Call) and isinstance(e.func, ast.Name) and e.func.id in ('min', 'max', 'float') and e.args and not e.keywords:
    return all(_positive(a, mod, depth) for a in e.args)
  if isinstance(e, ast.Name) and depth < 4:
    vals = mod.globals.get(e.id, [])
    return bool(vals) and all(_positive(v, mod, depth + 1) for v in vals)
  return False


def rule_watermark_positive(check, cx, rule):
  """the relay's low watermark is > 0 for every positive configuration: checkQueueSpace() fires queueHasSpace only when
  queueSize < SEND_QUEUE_LOW_WATERMARK, so a watermark that can be <= 0 (a difference of two settings) leaves the receivers
  paused for ever although the queue is empty."""
  mod = check.repo.module('carbon.client')
  vals = mod.globals.get('SEND_QUEUE_LOW_WATERMARK', [])
  if not rule.require(bool(vals), 'carbon.client.SEND_QUEUE_LOW_WATERMARK is not bound at module level'):
    return
  for v in vals:
    # a rebinding in terms of the previous value (W = min(W, ...)) is judged with the other bindings standing in for W
    others = [o for o in vals if o is not v]

    class _M(object):
      globals = dict(mod.globals)
    _M.globals['SEND_QUEUE_LOW_WATERMARK'] = others or []
    if _positive(v, _M):
      rule.ok('low watermark is a positive combination of settings', '%s:%d' % (mod.relpath, v.lineno), short(v, 70))
    else:
      rule.violate('low watermark can be <= 0', 'carbon.client:<module>', v, 'SEND_QUEUE_LOW_WATERMARK = `%s` is not positive for every '
                   'positive configuration: with a watermark <= 0 the test `queueSize < SEND_QUEUE_LOW_WATERMARK` never holds, '
                   'queueHasSpace never fires and the receivers stay paused with an empty queue' % short(v, 80))
