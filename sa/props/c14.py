"""C14 - No metric name can place a file outside the data directory.

Decided: every filesystem sink of the storage backends receives the metric name
only through TaggedSeries.encode (+ join(data_dir, ... + ext) for Whisper) with
nothing rewriting the encoded path afterwards; in encode() every metric-derived
component has all its dots replaced (no dot segment can survive) and the result
starts with the constant "_tagged" or is lstrip(sep)'d (cannot be absolute);
encode is deterministic.  Not decided: injectivity; Ceres' own path mapping.
"""
import ast

from ..model import dotted, unparse, norm, walk_no_nested
from ..rulelib import Ctx, short
from ..symeval import SymEval, alternatives, show, walk_term

FS_PREFIXES = ('whisper.', 'os.', 'self.tree.', 'ceres.', 'shutil.', 'io.')
FS_NAMES = {'exists', 'open', 'makedirs', 'rename', 'remove', 'unlink', 'isdir', 'isfile', 'getmtime', 'listdir', 'stat'}
NONDET = ('time', 'random', 'uuid', 'urandom', 'getpid', 'now', 'choice', 'randint')


def _mentions_metric(t, pname):
  return any(x == ('param', pname) for x in walk_term(t))


def _is_encode(t):
  return isinstance(t, tuple) and t[0] == 'call' and t[1].split('.')[-1] == 'encode' and 'TaggedSeries' in t[1]


CONSTS = None      # module-level string constants of carbon.database (set by run())


def _path_ok(t, pname, whisper):
  """is term t an acceptable filesystem argument derived from the metric?  returns (ok, why)"""
  if not _mentions_metric(t, pname):
    return True, 'no metric-derived part'
  if t[0] == 'either':
    for a in t[1:]:
      ok, why = _path_ok(a, pname, whisper)
      if not ok:
        return ok, why
    return True, 'all alternatives'
  if t[0] == 'call' and t[1] in ('dirname', 'os.path.dirname', 'abspath', 'os.path.abspath', 'normpath') and len(t) >= 3:
    if t[1].endswith('dirname'):
      return _path_ok(t[2], pname, whisper)
  if whisper:
    if t[0] == 'call' and t[1] in ('join', 'os.path.join') and len(t) >= 4:
      base = t[2]
      if not (base[0] == 'attr' and base[2] == 'data_dir' and base[1] == ('param', 'self')):
        return False, 'join() does not start at self.data_dir (%s)' % show(base)
      if len(t) != 4:
        return False, 'join() has extra components'
      rest = t[3]

      def harmless(x):
        """a constant extension: literal text (or a module-level constant name) without path syntax"""
        if x[0] == 'const':
          return isinstance(x[1], str) and '/' not in x[1] and '..' not in x[1]
        if x[0] == 'param' and CONSTS is not None:
          v = CONSTS.get(x[1])
          return isinstance(v, str) and '/' not in v and '..' not in v
        return False
      if rest[0] == 'binop' and rest[1] == 'Add' and harmless(rest[3]):
        rest = rest[2]
      elif rest[0] == 'fmt' and len(rest) >= 3 and rest[1].startswith('%s') and '/' not in rest[1] and '..' not in rest[1] and \
          all(harmless(x) for x in rest[3:]) and rest[1].count('%') == len(rest) - 2:
        rest = rest[2]            # '%s<ext>' % (encoded, ...) / '{0}{1}'.format(encoded, EXT)
      if _is_encode(rest) and rest[2] == ('param', pname):
        return True, show(t)
      return False, 'the component joined to the data directory is `%s`, not TaggedSeries.encode(metric, ...) (+ a constant ' \
        'extension): something rewrites the encoded path after it was sanitised' % show(rest)
    return False, '`%s` is not join(self.data_dir, TaggedSeries.encode(metric, ...) + ext)' % show(t)
  # ceres: the node path handed to the tree must be the encoded name
  core = t
  if core[0] == 'meth' and core[1] == 'getFilesystemPath' and len(core) >= 4:
    core = core[3]
  elif core[0] == 'call' and core[1].endswith('tree.getFilesystemPath') and len(core) >= 3:
    core = core[2]
  if _is_encode(core) and core[2] == ('param', pname):
    return True, show(t)
  return False, '`%s` is not TaggedSeries.encode(metric, ...)' % show(t)


def _is_module_constant(module, name):
  """bound once at module level to a literal and never declared global in a function: not state."""
  vals = module.globals.get(name, [])
  if len(vals) != 1 or not isinstance(vals[0], ast.Constant):
    return False
  return not any(isinstance(x, ast.Global) and name in x.names for x in ast.walk(module.tree))


def run(check):
  cx = Ctx(check)
  se = SymEval(cx, inline_depth=4)
  repo = check.repo
  check.explanation = (
    'Taint by symbolic terms: in every method of the storage backends, each argument of a filesystem-touching call that '
    'derives from the metric name must be exactly join(self.data_dir, TaggedSeries.encode(metric, sep, ...) + <constant ext>) '
    '(Whisper) resp. TaggedSeries.encode(metric, ...) (Ceres node path) - no other route, and nothing applied on top of the '
    'encoded name. The shape of encode()\'s return terms shows that every metric-derived component sits under '
    'replace(".", X) of the *whole* name with no dot in X, and that the result starts with the constant "_tagged" or is '
    'lstrip(sep) of it - so no dot segment survives and join() cannot be handed an absolute path. Determinism: encode calls '
    'only pure string/hash functions. Injectivity and Ceres\' own mapping are not decided.')
  check.not_decided = ['injectivity of the mapping on well-formed names (string reasoning)', 'path mapping inside the external '
                       'ceres library', 'symlinks below the data directory']
  check.trusted_base = ['os.path.join semantics', 'hashlib.sha256().hexdigest() yields hex digits only']
  dbmod = repo.module('carbon.database')
  base = dbmod.cls('TimeSeriesDatabase')
  backends = repo.subclasses(base)
  global CONSTS
  rebound = {n_ for x in ast.walk(dbmod.tree) if isinstance(x, ast.Global) for n_ in x.names}
  CONSTS = {k: v[0].value for k, v in dbmod.globals.items()
            if len(v) == 1 and isinstance(v[0], ast.Constant) and isinstance(v[0].value, str) and k not in rebound}

  r_s = check.rule('R-C14-sanitised', 6, 'every filesystem sink gets the metric only through encode() + join(data_dir, ...)')
  r_s.require(backends, 'no TimeSeriesDatabase backend class found in carbon.database')
  for cls in backends:
    whisper = 'whisper' in cls.name.lower()
    for mname, m in sorted(cls.methods.items()):
      if 'metric' not in m.params:
        continue
      check.analysed(m)
      out = []

      def sink(call):
        d = dotted(call.func) or ''
        if d.startswith(FS_PREFIXES) and not d.startswith('os.path.'):
          return d
        if isinstance(call.func, ast.Name) and call.func.id in FS_NAMES:
          return call.func.id
        return None
      se.run(m.body, {}, m, sink, out)
      for name, call, args, kws, loops, f in out:
        if name == '<return>':
          continue
        for a in list(args) + list(kws.values()):
          if not _mentions_metric(a, 'metric'):
            continue
          ok, why = _path_ok(a, 'metric', whisper)
          if ok:
            r_s.ok('%s.%s: %s(%s)' % (cls.name, mname, name, 'join(data_dir, encode(metric)+ext)' if whisper else 'encode(metric)'),
                   m.loc(call))
          else:
            r_s.violate('%s.%s: unsanitised path reaches %s' % (cls.name, mname, name), f, call,
                        'a metric-derived value reaches the filesystem call %s() as something else than the sanitised path: %s'
                        % (name, why))
      # what the path helpers return
      if mname in ('getFilesystemPath', '_getFilesystemPath'):
        for name, call, args, kws, loops, f in out:
          if name == '<return>' and _mentions_metric(args[0], 'metric'):
            ok, why = _path_ok(args[0], 'metric', whisper)
            if ok:
              r_s.ok('%s.%s returns the sanitised path' % (cls.name, mname), m.loc(call))
            else:
              r_s.violate('%s.%s returns an unsanitised path' % (cls.name, mname), f, call, why)
    # the whisper call site must pass the real path separator
    if whisper:
      gp = cls.methods.get('_getFilesystemPath') or cls.methods.get('getFilesystemPath')
      if gp is not None:
        encs = [c for c in ast.walk(gp.node) if isinstance(c, ast.Call) and (dotted(c.func) or '').endswith('TaggedSeries.encode')]
        for c in encs:
          sepa = c.args[1] if len(c.args) > 1 else next((kw.value for kw in c.keywords if kw.arg == 'sep'), None)
          imp = dbmod.imports.get(dotted(sepa) or '', None) if sepa is not None else None
          if sepa is not None and ((imp and imp[0] == 'from' and imp[1] == 'os.path' and imp[2] == 'sep') or
                                   dotted(sepa) in ('os.sep', 'os.path.sep')):
            r_s.ok('Whisper encodes with sep = os.path.sep (dots become directory separators)', gp.loc(c))
          else:
            r_s.violate('Whisper separator', gp, c, 'TaggedSeries.encode is called with sep=`%s`, not os.path.sep: with a separator '
                        'that keeps "." the name "a/../../x" keeps its dot segments' % (unparse(sepa) if sepa is not None else 'default "."'))

  # ------------------------------------------------------------------ shape of encode()
  r_e = check.rule('R-C14-encode-shape', 2, 'no dot segment or leading separator survives TaggedSeries.encode')
  enc = cx.fn('carbon.util', 'TaggedSeries.encode')
  check.analysed(enc)
  pname = enc.params[0]
  out = []
  se.run(enc.body, {}, enc, lambda c: None, out)
  rets = [o for o in out if o[0] == '<return>']
  r_e.require(len(rets) >= 2, 'expected the tagged and the untagged return of encode(), found %d' % len(rets))

  def hexonly(t):
    # derived from <hash>.hexdigest() through slicing only
    while t[0] == 'sub':
      t = t[1]
    return t[0] == 'meth' and t[1] == 'hexdigest'

  def canon_replace(t):
    """C.join(<x>.split('.'))  is  <x>.replace('.', C)"""
    if t[0] == 'meth' and t[1] == 'join' and len(t) == 4 and t[3][0] == 'meth' and t[3][1] == 'split' and len(t[3]) == 4 and \
       t[3][3] == ('const', '.'):
      return ('meth', 'replace', t[3][2], ('const', '.'), t[2])
    # NAME.join(...) / Class.NAME.join(...) on a global: evaluated as a dotted call
    if t[0] == 'call' and isinstance(t[1], str) and t[1].endswith('.join') and len(t) == 3 and t[2][0] == 'meth' and t[2][1] == 'split' and \
       len(t[2]) == 4 and t[2][3] == ('const', '.'):
      parts = t[1].split('.')[:-1]
      recv = ('param', parts[0])
      for p_ in parts[1:]:
        recv = ('attr', recv, p_)
      return ('meth', 'replace', t[2][2], ('const', '.'), recv)
    return t

  def dots_replaced(t):
    """t is <whole metric>.replace('.', C) with no '.' (and no '..') in C"""
    t = canon_replace(t)
    if not (t[0] == 'meth' and t[1] == 'replace' and t[2] == ('param', pname) and len(t) >= 5 and t[3] == ('const', '.')):
      return False
    c4 = as_const(t[4])
    return (c4[0] == 'const' and isinstance(c4[1], str) and '.' not in c4[1]) or t[4] == ('param', 'sep')
  def as_const(t):
    """a module-level / class-level string constant read by name"""
    if isinstance(t, tuple) and t[0] == 'param' and isinstance(t[1], str) and t[1] not in enc.params:
      vals = enc.module.globals.get(t[1], [])
      if len(vals) == 1 and isinstance(vals[0], ast.Constant) and _is_module_constant(enc.module, t[1]):
        return ('const', vals[0].value)
    if isinstance(t, tuple) and t[0] == 'attr' and len(t) == 3 and t[1] in (('param', 'self'), ('param', 'cls'), ('param', enc.cls.name if enc.cls else '')):
      v = enc.cls.attrs.get(t[2]) if enc.cls is not None else None
      assigned = any(isinstance(x, ast.Attribute) and x.attr == t[2] and isinstance(x.ctx, (ast.Store, ast.Del)) for x in ast.walk(enc.module.tree))
      if isinstance(v, ast.Constant) and not assigned:
        return ('const', v.value)
    return t

  def spread(t):
    """sep.join(<either(list A, list B)>)  ->  sep.join(A) | sep.join(B)"""
    outs = []
    for alt in alternatives(t):
      if alt[0] == 'meth' and alt[1] == 'join' and len(alt) == 4:
        for l_ in alternatives(alt[3]):
          outs.append(('meth', 'join', alt[2], ('list',) + tuple(l_[1:]) if l_[0] in ('list', 'tuple') else l_))
      else:
        outs.append(alt)
    return outs
  for name, node, args, kws, loops, f in rets:
    for alt in spread(args[0]):
      if not _mentions_metric(alt, pname):
        r_e.ok('return without metric-derived part', enc.loc(node))
        continue
      if alt[0] == 'meth' and alt[1] == 'join' and alt[2] == ('param', 'sep') and len(alt) == 4 and alt[3][0] == 'list':
        comps = [as_const(c) for c in alt[3][1:]]
        first = comps[0] if comps else None
        bad = []
        for c in comps:
          if c[0] == 'rest':
            c = c[1]            # elements appended in a loop: each one of these
          for ca in alternatives(c):
            ca = as_const(ca)
            if ca[0] == 'const' and isinstance(ca[1], str) and '.' not in ca[1] and '/' not in ca[1]:
              continue
            if hexonly(ca):
              continue
            if dots_replaced(ca) and canon_replace(ca)[4] != ('param', 'sep'):
              continue
            bad.append(ca)
        if first is None or first[0] != 'const' or not first[1] or first[1].startswith(('/', '.')):
          r_e.violate('tagged path may be absolute', enc, node, 'the tagged form does not start with a constant directory name '
                      '(found `%s`)' % (show(first) if first else 'nothing'))
        elif bad:
          r_e.violate('dots survive in the tagged form', enc, node, 'a component of the tagged path is `%s`: metric-derived text '
                      'that is not the whole name with every "." replaced - tag values such as "/../../x" keep their dot segments'
                      % show(bad[0]))
        else:
          r_e.ok('tagged form: "_tagged"/hash/hash/<hash | name with every "." replaced>', enc.loc(node))
      elif alt[0] == 'meth' and alt[1] == 'lstrip' and len(alt) == 4 and alt[3] == ('param', 'sep') and dots_replaced(alt[2]) and \
          canon_replace(alt[2])[4] == ('param', 'sep'):
        r_e.ok('untagged form: replace(".", sep) then lstrip(sep): relative, no dot left', enc.loc(node))
      else:
        r_e.violate('untagged/other form keeps dots or a leading separator', enc, node, 'encode() can return `%s`: not '
                    '"every dot of the whole name replaced, then leading separators stripped" (order matters: stripping first '
                    'lets ".x" become an absolute "/x")' % show(alt))
  # default separator keeps Ceres' own dotted node paths
  r_d = check.rule('R-C14-deterministic', 1, 'encode() is a pure function of its arguments')
  bad = []
  for c in [n for n in walk_no_nested(enc.node, include_self=False) if isinstance(n, ast.Call)]:
    d = (dotted(c.func) or unparse(c.func)).split('.')[-1]
    if d in NONDET:
      bad.append(c)
  glob_reads = [n for n in walk_no_nested(enc.node, include_self=False) if isinstance(n, ast.Name) and isinstance(n.ctx, ast.Load)
                and n.id not in enc.params and n.id not in ('sha256', 'md5', 'str', 'len', 'metric_hash') and
                n.id in enc.module.globals and not _is_module_constant(enc.module, n.id)]
  if bad or glob_reads:
    n = (bad or glob_reads)[0]
    r_d.violate('encode not deterministic', enc, n, 'encode() depends on `%s` besides its arguments' % short(n))
  else:
    r_d.ok('encode() calls only pure string/hash functions and reads no module state', enc.loc())
  rule_dir_before_plugin(check, cx, check.rule('R-C14-dir-before-plugin', 1, 'the database plug-in is built after LOCAL_DATA_DIR (and the other settings it copies) got their final value'))


def rule_dir_before_plugin(check, cx, rule):
  """the database plug-in copies settings.LOCAL_DATA_DIR (and its other options) once, in its constructor: CarbonCacheOptions.
  postOptions builds it only after the last statement that rewrites one of those settings (the `cleanpath()` normalisation that
  expands `~`).  Built earlier, the plug-in keeps the raw string and every .wsp file lands under `<cwd>/~/...`, outside the
  configured data directory."""
  repo = check.repo
  dbmod = repo.module('carbon.database')
  read = set()
  for f in dbmod.all_functions():
    if f.name == '__init__' and f.cls is not None and len(f.params) >= 2:
      sp = f.params[1]
      read |= {x.attr for x in ast.walk(f.node) if isinstance(x, ast.Attribute) and isinstance(x.value, ast.Name) and x.value.id == sp}
      read |= {x.slice.value for x in ast.walk(f.node) if isinstance(x, ast.Subscript) and isinstance(x.value, ast.Name) and
               x.value.id == sp and isinstance(x.slice, ast.Constant)}
  fn = cx.fn('carbon.conf', 'CarbonCacheOptions.postOptions')
  if not rule.require(fn is not None and 'LOCAL_DATA_DIR' in read, 'CarbonCacheOptions.postOptions / the plug-in constructors reading '
                      'settings.LOCAL_DATA_DIR not found'):
    return
  g = cx.cfg(fn)
  ctor = [n for n in g.nodes if n.kind == 'stmt' and isinstance(n.ast, ast.Assign) and
          any((dotted(t) or '').endswith('state.database') for t in n.ast.targets)]
  if not rule.require(len(ctor) >= 1, 'postOptions does not assign state.database'):
    return

  def rewrites(n):
    a = n.ast
    if n.kind != 'stmt' or not isinstance(a, (ast.Assign, ast.AugAssign)):
      return None
    for t in (a.targets if isinstance(a, ast.Assign) else [a.target]):
      if isinstance(t, ast.Subscript) and isinstance(t.value, ast.Name) and t.value.id == 'settings' and \
         isinstance(t.slice, ast.Constant) and t.slice.value in read:
        return t.slice.value
      if isinstance(t, ast.Attribute) and isinstance(t.value, ast.Name) and t.value.id == 'settings' and t.attr in read:
        return t.attr
    return None
  for c in ctor:
    later = [n for n in g.reach(g.after(c), normal_only=True) if rewrites(n)]
    if later:
      n = sorted(later, key=lambda x: x.lineno)[0]
      rule.violate('plug-in built before its settings are final', fn, c.ast, 'state.database is built at line %d, but settings[%r] is '
                   'rewritten afterwards (line %d: `%s`): the plug-in has already copied the raw value, so files are created under a '
                   'directory that is not the configured LOCAL_DATA_DIR' % (c.lineno, rewrites(n), n.lineno, short(n.ast, 60)))
    else:
      rule.ok('plug-in built after the last rewrite of the settings it copies', fn.loc(c.ast), '%d settings read by the constructors' % len(read))
