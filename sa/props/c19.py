"""C19 - New metrics get the first matching storage schema and aggregation policy.

Decided (structural): first-match loops, file-order loading with a per-read
section list, skipping of incomplete sections, argument routing into
database.create(), the unit table and "duration / scaled precision".
Not decided: regex semantics, integer parsing.
"""
import ast

from ..model import dotted, unparse, norm, walk_no_nested, loop_exits, loop_of
from ..rulelib import Ctx, nodes_calling, reaching_defs, value_assigned, short, resolve_copies

DB = {'TimeSeriesDatabase'}
UNITS = {'s': 1, 'm': 60, 'h': 3600, 'd': 86400, 'w': 604800, 'y': 31536000}
ORDER_BREAKERS = ('sorted', 'reversed', 'set', 'frozenset', 'shuffle')


def _fold(node):
  """Constant-fold +,*,- over int constants; None if not constant."""
  if isinstance(node, ast.Constant) and isinstance(node.value, (int, float)):
    return node.value
  if isinstance(node, ast.BinOp):
    l, r = _fold(node.left), _fold(node.right)
    if l is None or r is None:
      return None
    if isinstance(node.op, ast.Mult):
      return l * r
    if isinstance(node.op, ast.Add):
      return l + r
    if isinstance(node.op, ast.Sub):
      return l - r
  return None


def _plain_iter(it):
  """iteration over a collection in its own order (no sorting/reversal/set/slicing)."""
  if isinstance(it, (ast.Name, ast.Attribute)):
    return True
  if isinstance(it, ast.Call):
    f = dotted(it.func) or ''
    if f.split('.')[-1] in ORDER_BREAKERS:
      return False
    if f in ('list', 'tuple', 'iter') and it.args:
      return _plain_iter(it.args[0])
    if isinstance(it.func, ast.Attribute) and it.func.attr in ('sections', 'items', 'values', 'keys', 'copy'):
      return True
    return False
  return False


def run(check):
  cx = Ctx(check)
  repo = check.repo
  check.explanation = (
    'First-match discipline of the two schema loops in the writer\'s create path (break on the matched branch, '
    'iteration in list order), file-order loading (append-only inside a loop over sections(), default appended '
    'after the loop, sections() returning a per-read list collected top to bottom), skipping of incomplete '
    'sections by `continue`, positional routing of the create() arguments, the constant-folded unit table and the '
    'division of a duration by the *scaled* precision. Structural clauses only; regex semantics are trusted.')
  check.not_decided = ['regex semantics of schema patterns', 'numeric parsing of retention strings']
  check.trusted_base = ['configparser', 're']
  fn = cx.fn('carbon.writer', 'writeCachedDataPoints')
  g = cx.cfg(fn)

  # ------------------------------------------------------------------ first match
  r_fm = check.rule('R-C19-first-match', 2, 'schema loops stop at the first matching schema, in list order')
  loops = []
  for n in walk_no_nested(fn.node, include_self=False):
    if isinstance(n, ast.For) and isinstance(n.iter, (ast.Name, ast.Call, ast.Attribute)):
      itname = dotted(n.iter) if not isinstance(n.iter, ast.Call) else None
      names = {x.id for x in ast.walk(n.iter) if isinstance(x, ast.Name)}
      if names & {'SCHEMAS', 'AGGREGATION_SCHEMAS'}:
        loops.append(n)
  nexts = []
  for n in walk_no_nested(fn.node, include_self=False):
    if isinstance(n, ast.Call) and isinstance(n.func, ast.Name) and n.func.id == 'next' and n.args and \
       isinstance(n.args[0], ast.GeneratorExp) and \
       {x.id for x in ast.walk(n.args[0]) if isinstance(x, ast.Name)} & {'SCHEMAS', 'AGGREGATION_SCHEMAS'}:
      nexts.append(n)
  r_fm.require(len(loops) + len(nexts) >= 2, 'expected first-match selections over SCHEMAS and AGGREGATION_SCHEMAS in '
               'writeCachedDataPoints, found %d' % (len(loops) + len(nexts)))
  for nx in nexts:
    ge = nx.args[0]
    gen = ge.generators[0]
    label = unparse(gen.iter)
    tv = gen.target.id if isinstance(gen.target, ast.Name) else None
    matches = [c for i_ in gen.ifs for c in ast.walk(i_) if isinstance(c, ast.Call) and isinstance(c.func, ast.Attribute) and
               c.func.attr in ('matches', 'test') and dotted(c.func.value) == tv]
    if len(ge.generators) == 1 and _plain_iter(gen.iter) and tv and isinstance(ge.elt, ast.Name) and ge.elt.id == tv and \
       len(gen.ifs) == 1 and matches and gen.ifs[0] is matches[0]:
      r_fm.ok('next(<schemas of %s that match>) takes the first match in list order' % label, fn.loc(nx))
    else:
      r_fm.violate('selection over %s' % label, fn, nx, '`%s` is not "the first schema of the list, in its own order, that '
                   'matches the metric"' % short(nx))
  for loop in loops:
    label = unparse(loop.iter)
    if not _plain_iter(loop.iter):
      r_fm.violate('loop over %s' % label, fn, loop, 'the schema list is not iterated in its own (file) order: `%s`'
                   % unparse(loop.iter))
      continue
    heads = [n for n in g.nodes if n.kind == 'loop' and n.owner is loop]
    inside = g.in_loop_nodes(loop)
    outside = set(g.nodes) - inside
    matched = g.test_edges(lambda pol, t, n, loop=loop: pol == 'T' and n in inside and isinstance(t, ast.Call) and
                           isinstance(t.func, ast.Attribute) and t.func.attr in ('matches', 'test'))
    if not matched or not heads:
      r_fm.cannot_decide('no `.matches(metric)` test recognised in the loop over %s' % label)
      continue
    bad = [(a, b) for (a, lab, b) in matched if heads[0] in g.reach([b], removed_nodes=outside, normal_only=True)]
    if bad:
      a, b = bad[0]
      r_fm.violate('loop over %s' % label, fn, a.ast, 'after a schema matched, the loop over %s can go on to the next '
                   'schema: a later matching section would override the first' % label)
    else:
      r_fm.ok('loop over %s breaks on first match' % label, fn.loc(loop))

  # ------------------------------------------------------------------ a section matches as its pattern says
  ps = repo.cls('carbon.storage', 'PatternSchema')
  init_ps = ps.methods.get('__init__')
  test_ps = ps.methods.get('test')
  comp = [c for c in ast.walk(init_ps.node) if isinstance(c, ast.Call) and (dotted(c.func) or '').endswith('re.compile')] if init_ps else []
  if not comp:
    r_fm.cannot_decide('PatternSchema.__init__: re.compile(pattern) not found')
  for c in comp:
    if len(c.args) == 1 and not c.keywords and isinstance(c.args[0], ast.Name) and c.args[0].id in init_ps.params:
      r_fm.ok('section patterns are compiled exactly as configured (no flags)', init_ps.loc(c))
    else:
      r_fm.violate('section pattern altered', init_ps, c, '`%s` does not compile the configured pattern as it is (flags / rewritten '
                   'pattern): a section then also "matches" names its pattern does not match and ends the first-match search early'
                   % short(c))
  if test_ps is not None:
    srch = [c for c in ast.walk(test_ps.node) if isinstance(c, ast.Call) and isinstance(c.func, ast.Attribute) and dotted(c.func.value) == 'self.regex']
    if srch and all(c.func.attr == 'search' and len(c.args) == 1 and dotted(c.args[0]) == test_ps.params[1] for c in srch):
      r_fm.ok('PatternSchema.test = regex.search(metric)', test_ps.loc(srch[0]))
    else:
      r_fm.violate('section test', test_ps, srch[0] if srch else None, 'PatternSchema.test does not apply self.regex.search to the metric name',
                   construct='self.regex.search(metric)')
  # the periodic reload installs what the files say, every time
  for rname, gname, loader in (('reloadStorageSchemas', 'SCHEMAS', 'loadStorageSchemas'),
                               ('reloadAggregationSchemas', 'AGGREGATION_SCHEMAS', 'loadAggregationSchemas')):
    try:
      rf = cx.fn('carbon.writer', rname)
    except Exception:
      r_fm.cannot_decide('carbon.writer.%s not found' % rname)
      continue
    grf = cx.cfg(rf)
    loads = nodes_calling(grf, lambda c, loader=loader: dotted(c.func) == loader)
    def is_global_target(t, gname=gname):
      # SCHEMAS = ...   /   globals()['SCHEMAS'] = ...
      return dotted(t) == gname or (isinstance(t, ast.Subscript) and isinstance(t.value, ast.Call) and dotted(t.value.func) == 'globals' and
                                    isinstance(t.slice, ast.Constant) and t.slice.value == gname)
    assigns = [n for n in loads if isinstance(n.ast, ast.Assign) and any(is_global_target(t) for t in n.ast.targets)]
    if assigns and grf.exit not in grf.reach([grf.entry], removed_nodes=set(assigns), normal_only=True):
      r_fm.ok('%s re-reads the file on every tick (%s = %s())' % (rname, gname, loader), rf.loc(assigns[0].ast))
    else:
      r_fm.violate('%s can skip the reload' % rname, rf, (assigns or loads or [None])[0].ast if (assigns or loads) else None,
                   '%s can return without `%s = %s()`: the list the writer matches new metrics against then drifts from the '
                   'configuration file (a file restored with an older or equal modification time is never loaded)' % (rname, gname, loader),
                   construct='%s = %s()' % (gname, loader))

  # ------------------------------------------------------------------ load order
  r_lo = check.rule('R-C19-order', 5, 'schemas are loaded in file order with the default last')
  for lname, default_name in (('loadStorageSchemas', 'defaultSchema'), ('loadAggregationSchemas', 'defaultAggregation')):
    lf = cx.fn('carbon.storage', lname)
    gl = cx.cfg(lf)
    rets = [n for n in walk_no_nested(lf.node, include_self=False) if isinstance(n, ast.Return) and n.value is not None]
    if not (rets and all(isinstance(r.value, ast.Name) for r in rets)):
      r_lo.cannot_decide('%s does not return a plain list variable' % lname)
      continue
    lst = rets[0].value.id
    sec_loops = [n for n in walk_no_nested(lf.node, include_self=False) if isinstance(n, ast.For) and
                 isinstance(n.iter, ast.Call) and isinstance(n.iter.func, ast.Attribute) and n.iter.func.attr == 'sections']
    if not sec_loops:
      if any(isinstance(n, ast.For) for n in walk_no_nested(lf.node, include_self=False)):
        r_lo.violate('%s: section loop' % lname, lf, None, 'sections are not iterated in `config.sections()` order',
                     construct='for section in config.sections()')
      else:
        r_lo.cannot_decide('%s has no loop over config.sections()' % lname)
      continue
    loop = sec_loops[0]
    # the returned list may be an order-preserving selection from a list filled in the loop:
    #   candidates.append(<schema or None>) ... ; schemaList = [s for s in candidates if s is not None]
    names = {lst}
    for _ in range(2):
      for n in walk_no_nested(lf.node, include_self=False):
        if isinstance(n, ast.Assign) and len(n.targets) == 1 and isinstance(n.targets[0], ast.Name) and n.targets[0].id in names and \
           n.lineno > loop.end_lineno:
          v = n.value
          src = None
          if isinstance(v, ast.ListComp) and len(v.generators) == 1 and isinstance(v.generators[0].target, ast.Name) and \
             isinstance(v.elt, ast.Name) and v.elt.id == v.generators[0].target.id and isinstance(v.generators[0].iter, ast.Name):
            src = v.generators[0].iter.id
          elif isinstance(v, ast.Call) and isinstance(v.func, ast.Name) and v.func.id == 'list' and len(v.args) == 1 and isinstance(v.args[0], ast.Name):
            src = v.args[0].id
          elif isinstance(v, ast.Call) and isinstance(v.func, ast.Name) and v.func.id == 'list' and len(v.args) == 1 and \
              isinstance(v.args[0], ast.Call) and isinstance(v.args[0].func, ast.Name) and v.args[0].func.id == 'filter' and \
              len(v.args[0].args) == 2 and isinstance(v.args[0].args[1], ast.Name):
            src = v.args[0].args[1].id
          if src is not None:
            names.add(src)
    muts = []
    for n in walk_no_nested(lf.node, include_self=False):
      if isinstance(n, ast.Call) and isinstance(n.func, ast.Attribute) and dotted(n.func.value) in names:
        muts.append(n)
      elif isinstance(n, ast.Assign) and any(isinstance(t, ast.Subscript) and dotted(t.value) in names for t in n.targets):
        muts.append(n)
      elif isinstance(n, ast.AugAssign) and dotted(n.target) in names:
        muts.append(n)
    bad = [m for m in muts if not (isinstance(m, ast.Call) and m.func.attr == 'append')]
    if bad:
      r_lo.violate('%s: list built by append only' % lname, lf, bad[0], 'the schema list is modified by `%s`, which can '
                   'put a section ahead of earlier ones' % short(bad[0]))
    else:
      r_lo.ok('%s: %s only appended to' % (lname, lst), lf.loc(loop))
    in_loop = [m for m in muts if any(x is m for x in ast.walk(loop))]
    after = [m for m in muts if m not in in_loop and getattr(m, 'lineno', 0) > loop.end_lineno]
    def is_default(e):
      if dotted(e) == default_name:
        return True
      if isinstance(e, ast.Name):
        srcs = [st.value for st in walk_no_nested(lf.node, include_self=False) if isinstance(st, ast.Assign) and
                any(isinstance(t, ast.Name) and t.id == e.id for t in st.targets)]
        return bool(srcs) and all(dotted(x) == default_name for x in srcs)
      return False
    default_after = [m for m in after if isinstance(m, ast.Call) and m.args and is_default(m.args[0])]
    default_elsewhere = [m for m in muts if isinstance(m, ast.Call) and m.args and is_default(m.args[0])
                         and m not in default_after]
    if default_after and not default_elsewhere and in_loop:
      r_lo.ok('%s: pattern sections appended in the loop, %s appended after it' % (lname, default_name), lf.loc(default_after[0]))
    else:
      r_lo.violate('%s: default last' % lname, lf, (default_elsewhere or muts or [loop])[0],
                   'the default schema is not appended after the loop over the file\'s sections (or pattern sections '
                   'are not appended inside it)')
    # incomplete sections are skipped with `continue`, never by leaving the loop
    leaving = loop_exits(loop)
    if leaving:
      r_lo.violate('%s: incomplete section' % lname, lf, leaving[0], 'a `%s` inside the section loop stops loading the '
                   'remaining sections' % type(leaving[0]).__name__.lower())
    else:
      r_lo.ok('%s: no break/return inside the section loop' % lname, lf.loc(loop))
  # missing pattern / retentions -> continue
  ls = cx.fn('carbon.storage', 'loadStorageSchemas')
  gl = cx.cfg(ls)
  r_sk = check.rule('R-C19-skip', 2, 'sections lacking a pattern or retentions are skipped without affecting the others')
  from ..paths import PathExec
  ls_rets = [n for n in walk_no_nested(ls.node, include_self=False) if isinstance(n, ast.Return) and isinstance(n.value, ast.Name)]
  ls_list = ls_rets[0].value.id if ls_rets else 'schemaList'
  appends = nodes_calling(gl, lambda c: isinstance(c.func, ast.Attribute) and c.func.attr == 'append' and
                          dotted(c.func.value) == ls_list and c.args and dotted(c.args[0]) != 'defaultSchema')
  heads = [n for n in gl.nodes if n.kind == 'loop' and isinstance(n.owner, ast.For) and isinstance(n.owner.iter, ast.Call) and
           isinstance(n.owner.iter.func, ast.Attribute) and n.owner.iter.func.attr == 'sections']
  if not heads or not appends:
    r_sk.cannot_decide('loadStorageSchemas: section loop or schema append not recognised')
  else:
    head = heads[0]

    def option_missing(pol, t, a, key):
      """does this decision establish that the section has no (usable) option ``key``?"""
      K = ('const', key)
      if not isinstance(t, tuple):
        return False
      if pol == 'X':
        # KeyError handler entered from a statement that subscripts [...][key]
        h = a
        return False
      if t[0] in ('in', 'notin') and t[1] == K:
        return (t[0] == 'notin') == (pol == 'T')
      def is_get(x):
        return isinstance(x, tuple) and ((x[0] == 'meth' and x[1] == 'get' and len(x) >= 4 and x[3] == K) or
                                         (x[0] == 'call' and x[1].endswith('.get') and len(x) >= 3 and x[2] == K))
      if t[0] == 'truth' and is_get(t[1]):
        return pol == 'F'
      if t[0] == 'cmp' and t[1] in ('Is', 'IsNot', 'Eq', 'NotEq') and is_get(t[2]) and t[3] == ('const', None):
        return (t[1] in ('Is', 'Eq')) == (pol == 'T')
      return False

    def keyerror_on(hit, key):
      for pol, t, a, n in hit.conds:
        if pol == 'X' and n.kind == 'handler' and n.ast.type is not None and 'KeyError' in unparse(n.ast.type) and a is not None:
          if any(isinstance(x, ast.Subscript) and isinstance(x.slice, ast.Constant) and x.slice.value == key for x in ast.walk(a)):
            return True
      return False

    px = PathExec(cx, ls, unroll=0)
    verdicts = {'retentions': set(), 'pattern': set()}
    for hit in px.run(set(appends) | {head, gl.exit, gl.raise_exit}):
      if hit.node is head and head not in hit.trail[:-1]:
        continue               # first arrival at the loop
      for key in ('retentions', 'pattern'):
        missing = keyerror_on(hit, key) or any(pol in ('T', 'F') and option_missing(pol, t, a, key) for pol, t, a, n in hit.conds)
        if not missing:
          continue
        if hit.node in appends:
          verdicts[key].add(('appended', hit.node))
        elif hit.node is head:
          verdicts[key].add(('skipped', hit.node))
        elif hit.node is gl.exit or any(n.kind == 'stmt' and isinstance(n.ast, ast.Raise) for n in hit.trail):
          last = [n for n in hit.trail if n.ast is not None]
          verdicts[key].add(('ends', last[-1] if last else hit.node))
    for key in ('retentions', 'pattern'):
      v = verdicts[key]
      bad = [x for x in v if x[0] != 'skipped']
      if bad:
        kind, n = sorted(bad, key=lambda x: x[0])[0]
        r_sk.violate('missing %s' % key, ls, n.ast, 'a section without `%s` %s' % (
          key, 'can still be appended to the schema list' if kind == 'appended' else
          'is not skipped with `continue`: it ends the loading of all sections'))
      elif v:
        r_sk.ok('missing %s -> the section is skipped, the loop goes on' % key, ls.loc(head.owner))
      else:
        r_sk.violate('missing %s' % key, ls, None, 'no path of loadStorageSchemas recognises a section without `%s`' % key,
                     construct='missing %s' % key)
    if px.truncated:
      r_sk.cannot_decide('too many paths through loadStorageSchemas')

  # ------------------------------------------------------------------ OrderedConfigParser
  r_ocp = check.rule('R-C19-section-order', 3, 'sections() is the per-read list of section headers, top to bottom')
  ocp = repo.cls('carbon.conf', 'OrderedConfigParser')
  attr = '_ordered_sections'
  rd = ocp.methods.get('read')
  sec = ocp.methods.get('sections')
  if rd is None or sec is None:
    r_ocp.cannot_decide('OrderedConfigParser.read/sections not found')
  else:
    # sections(): returns the attribute (or a plain copy), no filter / sort
    rets = [n for n in walk_no_nested(sec.node, include_self=False) if isinstance(n, ast.Return)]
    for r in rets:
      v = r.value
      plain = False
      if v is not None:
        inner = v
        while isinstance(inner, ast.Call) and dotted(inner.func) in ('list', 'tuple') and inner.args:
          inner = inner.args[0]
        if isinstance(inner, ast.Subscript) and isinstance(inner.slice, ast.Slice) and \
           inner.slice.lower is None and inner.slice.upper is None and inner.slice.step is None:
          inner = inner.value
        if isinstance(inner, ast.ListComp) and len(inner.generators) == 1 and \
           dotted(inner.generators[0].iter) == 'self.' + attr and isinstance(inner.elt, ast.Name) and \
           isinstance(inner.generators[0].target, ast.Name) and inner.elt.id == inner.generators[0].target.id:
          inner = inner.generators[0].iter        # order-preserving filter / copy
        plain = dotted(inner) == 'self.' + attr
      if plain:
        r_ocp.ok('sections() returns the collected list unchanged', sec.loc(r))
      else:
        r_ocp.violate('sections() reshapes the list', sec, r, 'sections() does not return the collected header list as '
                      'it is (`%s`): file order can be lost or stale entries filtered in' % short(r))
    # read(): the attribute is assigned a list created in this call; never mutated in place
    inplace = []
    for f in ocp.methods.values():
      for n in walk_no_nested(f.node, include_self=False):
        if isinstance(n, ast.Call) and isinstance(n.func, ast.Attribute) and dotted(n.func.value) == 'self.' + attr \
           and n.func.attr in ('append', 'extend', 'insert', 'remove', 'pop', 'sort', 'reverse', 'clear'):
          inplace.append((f, n))
        if isinstance(n, ast.AugAssign) and dotted(n.target) == 'self.' + attr:
          inplace.append((f, n))
    if inplace:
      f, n = inplace[0]
      r_ocp.violate('shared list mutated in place', f, n, 'self.%s is mutated in place; its only other binding is the '
                    'class-level list shared by every parser instance, so section order leaks between files and reloads'
                    % attr)
    else:
      r_ocp.ok('no in-place mutation of self.%s' % attr, rd.loc())
    assigns = [n for n in walk_no_nested(rd.node, include_self=False) if isinstance(n, ast.Assign) and
               any(dotted(t) == 'self.' + attr for t in n.targets)]
    grd = cx.cfg(rd)
    ok = False
    why = 'read() does not assign self.%s' % attr
    for a in assigns:
      av = a.value
      while isinstance(av, ast.Call) and isinstance(av.func, ast.Name) and av.func.id in ('list', 'tuple') and len(av.args) == 1 and \
          not av.keywords and isinstance(av.args[0], ast.Name):
        av = av.args[0]           # a copy of the list collected above
      if isinstance(av, ast.Name):
        loc = av.id
        nodes = grd.nodes_of(a)
        rds = reaching_defs(grd, loc, nodes[0]) if nodes else []
        fresh = [d for d in rds if d is not grd.entry and isinstance(value_assigned(d, loc), (ast.List,)) and
                 not value_assigned(d, loc).elts]
        if rds and len(fresh) == len(rds):
          # appended in a loop over the file lines, in order
          apps = [c for c in walk_no_nested(rd.node, include_self=False) if isinstance(c, ast.Call) and
                  isinstance(c.func, ast.Attribute) and dotted(c.func.value) == loc]
          if apps and all(c.func.attr == 'append' for c in apps):
            ok = True
          else:
            why = 'the local section list is modified by something other than append'
        else:
          why = 'the list assigned to self.%s is not created afresh in read()' % attr
      elif isinstance(a.value, (ast.List, ast.ListComp)):
        ok = True
    if ok:
      r_ocp.ok('read() installs a freshly collected list', rd.loc(assigns[0]))
    else:
      r_ocp.violate('per-read list', rd, assigns[0] if assigns else None, why, construct='self.%s = <fresh list>' % attr)

  # ------------------------------------------------------------------ argument routing
  r_ar = check.rule('R-C19-arg-routing', 4, 'create() gets retentions from the storage loop and (xff, method) from the '
                    'aggregation loop, in signature order')
  creates = nodes_calling(g, lambda c: cx.calls_method(c, fn, DB, 'create'))
  sig = repo.cls('carbon.database', 'TimeSeriesDatabase').methods.get('create')
  r_ar.require(sig is not None and len(sig.params) == 5, 'TimeSeriesDatabase.create signature changed')
  from ..paths import PathExec
  from ..symeval import show

  def first_of(t, lst):
    """t denotes the first element of the schema list ``lst`` that matched (loop variable at the match, or next(<filter>))"""
    def is_list(x):
      while isinstance(x, tuple) and x[0] == 'call' and x[1] in ('list', 'tuple', 'iter') and len(x) == 3:
        x = x[2]
      return x == ('param', lst)
    if not isinstance(t, tuple):
      return False
    if t[0] == 'elem' and is_list(t[1]):
      return True
    if t[0] == 'call' and t[1] == 'next' and len(t) in (3, 4) and isinstance(t[2], tuple) and t[2][0] == 'comp':
      elt = t[2][1]
      return isinstance(elt, tuple) and elt[0] == 'elem' and is_list(elt[1]) and (len(t) == 3 or t[3] == ('const', None))
    return False

  def archives_of(t, lst):
    return isinstance(t, tuple) and t[0] == 'attr' and t[2] == 'archives' and first_of(t[1], lst)

  px = PathExec(cx, fn, unroll=0, follow_exceptions=False)
  judged = set()
  for hit in px.run(creates):
    call = [c for c in g.calls(hit.node) if cx.calls_method(c, fn, DB, 'create')][0]
    if len(call.args) != 4:
      r_ar.cannot_decide('create() is not called with four positional arguments: %s' % norm(call))
      continue
    t1, t2, t3 = [hit.term(a, px) for a in call.args[1:]]
    key = (id(call), t1, t2, t3)
    if key in judged:
      continue
    judged.add(key)
    ok1 = isinstance(t1, tuple) and t1[0] == 'comp' and not t1[2] and isinstance(t1[1], tuple) and t1[1][0] == 'meth' and \
      t1[1][1] == 'getTuple' and len(t1[1]) == 3 and isinstance(t1[1][2], tuple) and t1[1][2][0] == 'elem' and \
      archives_of(t1[1][2][1], 'SCHEMAS')

    def comp_ok(t, idx):
      if t == ('const', None):
        return True
      return isinstance(t, tuple) and t[0] in ('field', 'sub') and t[2] == idx and archives_of(t[1], 'AGGREGATION_SCHEMAS')
    for ok, what, t in ((ok1, 'retentions <- first matching storage schema (getTuple of each archive)', t1),
                        (comp_ok(t2, 0), 'xFilesFactor <- component 0 of the first matching aggregation schema', t2),
                        (comp_ok(t3, 1), 'aggregationMethod <- component 1 of the first matching aggregation schema', t3)):
      if ok:
        r_ar.ok(what, fn.loc(call))
      else:
        r_ar.violate(what.split(' <-')[0], fn, call, 'argument routing into database.create() is not `%s` (on some path the '
                     'argument is %s)' % (what, show(t)))
  if px.truncated:
    r_ar.cannot_decide('too many paths to database.create()')
  # producer of the aggregation tuple
  la = cx.fn('carbon.storage', 'loadAggregationSchemas')
  gla = cx.cfg(la)
  ps_nodes = nodes_calling(gla, lambda c: dotted(c.func) == 'PatternSchema' and len(c.args) >= 3)
  if ps_nodes:
    from ..paths import mentions
    pxa = PathExec(cx, la, unroll=0, follow_exceptions=False)

    def option_keys(t):
      """the option names read (through <options>.get('<name>')) by a term"""
      keys = set()
      def visit(x):
        if isinstance(x, tuple):
          if x[0] == 'meth' and x[1] == 'get' and len(x) >= 4 and isinstance(x[3], tuple) and x[3][0] == 'const':
            keys.add(x[3][1])
          for y in x[1:]:
            visit(y)
      visit(t)
      return keys
    seen_layouts = set()
    for hit in pxa.run(set(ps_nodes)):
      call = [c for c in gla.calls(hit.node) if dotted(c.func) == 'PatternSchema' and len(c.args) >= 3][0]
      t = hit.term(call.args[2], pxa)
      if isinstance(t, tuple) and t[0] == 'tuple' and len(t) == 3:
        layout = (tuple(sorted(option_keys(t[1]))), tuple(sorted(option_keys(t[2]))))
      else:
        layout = ('?', show(t)[:80])
      if (id(call), layout) in seen_layouts:
        continue
      seen_layouts.add((id(call), layout))
      if layout == (('xfilesfactor',), ('aggregationmethod',)):
        r_ar.ok('aggregation schema tuple = (xfilesfactor option, aggregationmethod option)', la.loc(call))
      else:
        r_ar.violate('aggregation tuple layout', la, call, 'the (xFilesFactor, aggregationMethod) pair given to PatternSchema is built '
                     'from options %s / %s' % (layout[0], layout[1]))
    if pxa.truncated:
      r_ar.cannot_decide('too many paths through loadAggregationSchemas')
  else:
    r_ar.cannot_decide('producer of the (xFilesFactor, aggregationMethod) tuple not recognised')

  # ------------------------------------------------------------------ units
  r_un = check.rule('R-C19-units', 8, 'unit multipliers and "duration / precision"')
  um = repo.module('carbon.util').globals.get('UnitMultipliers', [])
  if not (um and isinstance(um[0], ast.Dict)):
    r_un.cannot_decide('UnitMultipliers is not a literal dict')
  else:
    got = {}
    for k, v in zip(um[0].keys, um[0].values):
      if isinstance(k, ast.Constant):
        got[k.value] = _fold(v)
    for u, val in sorted(UNITS.items()):
      if got.get(u) == val:
        r_un.ok('unit %s = %d s' % (u, val), 'lib/carbon/util.py:%d' % um[0].lineno)
      else:
        r_un.violate('unit %s' % u, 'carbon.util:<module>', None, 'UnitMultipliers[%r] folds to %r, documented value is %d'
                     % (u, got.get(u), val), construct='UnitMultipliers[%r]' % u)
    extra = set(got) - set(UNITS)
    if extra:
      r_un.violate('undocumented units', 'carbon.util:<module>', None, 'UnitMultipliers has undocumented suffixes %s'
                   % sorted(extra), construct='UnitMultipliers keys')
  pr = cx.fn('carbon.util', 'parseRetentionDef')
  gp = cx.cfg(pr)
  from ..paths import PathExec, mentions
  from ..symeval import show, canon

  def unit_lookup(t):
    return isinstance(t, tuple) and t[0] in ('sub', 'field') and t[1] == ('param', 'UnitMultipliers')

  def scaled_term(t):
    """<number> * UnitMultipliers[<unit>]  (either order)"""
    return isinstance(t, tuple) and t[0] == 'binop' and t[1] == 'Mult' and (unit_lookup(t[2]) != unit_lookup(t[3]))
  px = PathExec(cx, pr, unroll=0, follow_exceptions=False, fold_tables=False)
  ret_nodes = [n for n in gp.nodes if n.kind == 'stmt' and isinstance(n.ast, ast.Return) and n.ast.value is not None]
  shapes = set()
  ok0 = True
  n_div = 0
  for hit in px.run(ret_nodes):
    t = hit.term(hit.node.ast.value, px)
    if not (isinstance(t, tuple) and t[0] == 'tuple' and len(t) == 3):
      r_un.cannot_decide('parseRetentionDef does not return a pair')
      ok0 = False
      continue
    P, Q = t[1], t[2]
    key = (P, Q)
    if key in shapes:
      continue
    shapes.add(key)
    if not scaled_term(P):
      ok0 = False
      r_un.violate('precision not in seconds', pr, hit.node.ast, 'the first component returned (seconds per point) is `%s`, not a '
                   'number scaled by UnitMultipliers[<unit>]' % show(P))
      continue
    if not mentions(Q, unit_lookup):
      continue                       # a plain number of points
    if isinstance(Q, tuple) and Q[0] == 'binop' and Q[1] in ('Div', 'FloorDiv') and scaled_term(Q[2]) and Q[3] == P:
      n_div += 1
      r_un.ok('duration divided by the precision in seconds', pr.loc(hit.node.ast), '%s' % show(Q)[:120])
    else:
      r_un.violate('duration / precision', pr, hit.node.ast, 'a retention given as a duration yields `%s` points: not the '
                   'unit-scaled duration divided by the unit-scaled precision (the same value that is returned as seconds per '
                   'point)' % show(Q))
  if px.truncated:
    r_un.cannot_decide('too many paths through parseRetentionDef')
  if not n_div and not any(i_['verdict'] == 'VIOLATED' for i_ in r_un.instances):
    r_un.violate('duration / precision', pr, None, 'no division of a unit-scaled duration by the precision found in '
                 'parseRetentionDef', construct='points = <duration> / precision')
  # tuple layout: parseRetentionDef returns (precision, points); Archive(secondsPerPoint, points)
  rets = [r for r in walk_no_nested(pr.node, include_self=False) if isinstance(r, ast.Return) and r.value is not None]
  fs = repo.cls('carbon.storage', 'Archive').methods.get('fromString')
  gt = repo.cls('carbon.storage', 'Archive').methods.get('getTuple')
  if rets and fs is not None and gt is not None:
    gts = [r for r in walk_no_nested(gt.node, include_self=False) if isinstance(r, ast.Return)]
    ok1 = gts and unparse(gts[0].value).replace(' ', '') == '(self.secondsPerPoint,self.points)'
    init = repo.cls('carbon.storage', 'Archive').methods.get('__init__')
    ok2 = init is not None and init.params[1:3] == ['secondsPerPoint', 'points']
    if ok0 and ok1 and ok2:
      r_un.ok('(seconds-per-point, points) layout agrees: parser -> Archive -> getTuple', pr.loc(rets[0]))
    else:
      r_un.violate('retention tuple layout', pr, rets[0], 'the (seconds-per-point, points) layout differs between '
                   'parseRetentionDef, Archive.__init__ and Archive.getTuple')
  else:
    r_un.cannot_decide('retention tuple layout not recognised')
  from .c16 import rule_parser_verbatim
  rule_parser_verbatim(check, cx, check.rule('R-C19-parser-verbatim', 1, 'storage-schemas / storage-aggregation option values are taken as written (default ConfigParser syntax)'))
  rule_independent_timers(check, cx, check.rule('R-C19-independent-timers', 1, 'a failure of one reload (SystemExit from a bad retention) cannot stop the reload of the other file'))


def rule_independent_timers(check, cx, rule):
  """each schema list has a reload tick of its own: a LoopingCall whose function reloads storage-schemas.conf AND
  storage-aggregation.conf ties them together - loadStorageSchemas() answers an unparsable retention with `raise SystemExit(1)`,
  which `except Exception` does not catch; it escapes the shared function, Twisted stops that LoopingCall for good, and
  storage-aggregation.conf is never read again.  (A shared function is accepted when every reload step but the last sits in a
  try whose handler catches BaseException.)"""
  wmod = check.repo.module('carbon.writer')
  lcs = []
  for ss_ in wmod.all_functions():
    if isinstance(ss_.node, ast.Lambda):
      continue
    lcs += [(ss_, c) for c in walk_no_nested(ss_.node, include_self=False) if isinstance(c, ast.Call) and
            (dotted(c.func) or '').split('.')[-1] == 'LoopingCall' and c.args]
  GL = ('SCHEMAS', 'AGGREGATION_SCHEMAS')
  seen = 0
  for ss, c in lcs:
    target = None
    for t in check.types.expr_types(c.args[0], ss.module, ss):
      if t[0] == 'func':
        target = t[1]
    if target is None:
      continue
    f = cx.inl(target)
    steps = []
    for st in ast.walk(f.node):
      if isinstance(st, ast.Assign):
        for t in st.targets:
          d = dotted(t)
          if d in GL or (isinstance(t, ast.Subscript) and isinstance(t.slice, ast.Constant) and t.slice.value in GL and 'globals' in unparse(t.value)):
            steps.append((st, d or t.slice.value))
    # helpers that were not spliced (anchors are never inlined): follow one level of calls to the reload functions
    for call in walk_no_nested(f.node, include_self=False):
      if isinstance(call, ast.Call) and isinstance(call.func, ast.Name) and call.func.id in ('reloadStorageSchemas', 'reloadAggregationSchemas'):
        steps.append((call, 'SCHEMAS' if 'Storage' in call.func.id else 'AGGREGATION_SCHEMAS'))
    kinds = {k for _, k in steps}
    if not kinds:
      continue
    seen += 1
    if len(kinds) == 1:
      rule.ok('%s reloads %s only' % (target.qualname, kinds.pop()), ss.loc(c))
      continue
    steps.sort(key=lambda s: (s[0].lineno, s[0].col_offset))
    unsafe = None
    for st, k in steps[:-1]:
      node, safe = st, False
      while node is not f.node and node is not None:
        par = getattr(node, '_parent', None)
        if isinstance(par, ast.Try) and any(node is s for s in par.body):
          for h in par.handlers:
            if h.type is None or unparse(h.type) == 'BaseException':
              safe = True
        node = par
      if not safe:
        unsafe = (st, k)
        break
    if unsafe:
      rule.violate('one timer for both files', ss, c, 'LoopingCall(%s) reloads both schema lists; the reload of %s (line %d) is not '
                   'shielded against BaseException, and loadStorageSchemas() can `raise SystemExit(1)` (bad retention): that escapes, '
                   'stops the shared LoopingCall, and the other file is never re-read until restart' % (target.qualname, unsafe[1], unsafe[0].lineno))
    else:
      rule.ok('%s reloads both lists, each step shielded' % target.qualname, ss.loc(c))
  rule.require(seen >= 1, 'no LoopingCall that reloads a schema list found in carbon.writer')
