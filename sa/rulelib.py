"""Helpers shared by the property modules: call classification on CFG nodes,
simple def-use, and a few idiom recognisers (enumerated from the repository)."""
import ast

from .cfg import CFG
from .model import dotted, unparse, walk_no_nested, norm, AnchorMissing


class Ctx(object):
  """Per-run caches (CFGs, call resolution) bound to a Check."""

  def __init__(self, check):
    self.check = check
    self.repo = check.repo
    self.types = check.types
    self._cfgs = {}
    self._callees = {}

  def cfg(self, fn):
    k = (fn.key, fn.variant)
    if k not in self._cfgs:
      self._cfgs[k] = CFG(fn)
      self.check.analysed(fn)
    return self._cfgs[k]

  def fn(self, modname, qualname, variant=0, inline=True):
    return self.repo.func(modname, qualname, variant)

  def inl(self, fn):
    """the function with simple same-module helpers inlined (see sa/inline.py); fn itself if nothing was inlined."""
    return fn      # the whole program is normalised when it is loaded (sa/inline.py: load_program)

  def method(self, cls, name):
    m = cls.methods.get(name)
    return self.inl(m) if m is not None else None

  def callees(self, call, fn):
    k = id(call)
    if k not in self._callees:
      self._callees[k] = self.types.callees(call, fn.module, fn)
    return self._callees[k]

  def resolves_to(self, call, fn, pred, allow_byname=True):
    """True if some resolved callee of ``call`` satisfies pred(FunctionInfo)."""
    cs, how = self.callees(call, fn)
    if how == 'byname' and not allow_byname:
      return False
    return any(pred(c) for c, _ in cs)

  def calls_method(self, call, fn, class_names, method, allow_byname=True):
    """call resolves to <one of class_names or a subclass>.<method>; falls back to the
    attribute name when the receiver type is unknown."""
    f = call.func
    if not (isinstance(f, ast.Attribute) and f.attr == method):
      return False
    cs, how = self.callees(call, fn)
    if how in ('resolved', 'byname'):
      for c, _ in cs:
        if c.cls is not None and (c.cls.name in class_names or any(
            (not isinstance(b, tuple)) and b.name in class_names for b in self.repo.mro(c.cls))):
          return True
      return False
    return False

  def calls_function(self, call, fn, modname, qualname):
    last = qualname.split('.')[-1]
    f = call.func
    called = f.attr if isinstance(f, ast.Attribute) else getattr(f, 'id', None)
    if called != last:
      # an ``import x as y`` alias of a function would be missed; carbon has none for the functions rules ask about
      imp = fn.module.imports.get(called) if called else None
      if not (imp and imp[0] == 'from' and imp[2] == last):
        return False
    cs, how = self.callees(call, fn)
    return any(c.module.name == modname and c.qualname == qualname for c, _ in cs)


# ---------------------------------------------------------------- node predicates

def node_calls(cfg, node):
  return cfg.calls(node)


def call_text(call):
  return dotted(call.func) or unparse(call.func)


def node_has_call(cfg, node, pred):
  return any(pred(c) for c in cfg.calls(node))


def nodes_calling(cfg, pred):
  return [n for n in cfg.nodes if n.ast is not None and n.kind in ('stmt', 'test', 'iter', 'with')
          and any(pred(c) for c in cfg.calls(n))]


def const_str_args(call):
  return [a.value for a in call.args if isinstance(a, ast.Constant) and isinstance(a.value, str)]


def is_increment_of(call, stat):
  """instrumentation.increment('<stat>' ...) (any receiver spelling)."""
  f = call.func
  name = f.attr if isinstance(f, ast.Attribute) else getattr(f, 'id', None)
  return name == 'increment' and stat in const_str_args(call)


def names_loaded(node):
  return {n.id for n in walk_no_nested(node) if isinstance(n, ast.Name) and isinstance(n.ctx, ast.Load)}


def names_stored(node):
  out = set()
  for n in walk_no_nested(node):
    if isinstance(n, ast.Name) and isinstance(n.ctx, (ast.Store, ast.Del)):
      out.add(n.id)
  return out


def assigned_names(stmt):
  """Names (re)bound by a statement node (Assign/AugAssign/For target/with-as/except-as)."""
  out = set()
  if isinstance(stmt, (ast.Assign, ast.AnnAssign, ast.AugAssign)):
    tgts = stmt.targets if isinstance(stmt, ast.Assign) else [stmt.target]
    for t in tgts:
      for n in ast.walk(t):
        if isinstance(n, ast.Name) and isinstance(n.ctx, (ast.Store, ast.Del)):
          out.add(n.id)
  return out


def defs_of(cfg, name):
  """CFG nodes that (re)bind local ``name`` (assignment, for target, except-as, import)."""
  out = []
  for n in cfg.nodes:
    a = n.ast
    if a is None:
      continue
    if n.kind == 'stmt' and isinstance(a, (ast.Assign, ast.AnnAssign, ast.AugAssign)):
      if name in assigned_names(a):
        out.append(n)
    elif n.kind == 'loop' and isinstance(n.owner, ast.For):
      if any(isinstance(x, ast.Name) and x.id == name for x in ast.walk(n.owner.target)):
        out.append(n)
    elif n.kind == 'handler' and a.name == name:
      out.append(n)
    elif n.kind == 'with' and n.owner is not None:
      for i in n.owner.items:
        if i.optional_vars is not None and any(isinstance(x, ast.Name) and x.id == name
                                               for x in ast.walk(i.optional_vars)):
          out.append(n)
  return out


def reaching_defs(cfg, name, use_node):
  """Definition nodes of ``name`` that reach ``use_node`` (entry => 'param/entry')."""
  defs = defs_of(cfg, name)
  out = []
  for d in defs:
    others = set(defs) - {d}
    starts = cfg.succs(d, normal_only=False) if d.kind != 'loop' else [y for y, lab in d.succ
                                                                        if isinstance(lab, tuple) and lab[0] == 'T']
    if use_node in cfg.reach(starts, removed_nodes=others):
      out.append(d)
  if use_node in cfg.reach([cfg.entry], removed_nodes=set(defs)):
    out.append(cfg.entry)
  return out


def value_assigned(def_node, name):
  """The RHS expression bound to ``name`` at a definition node (or None / ('unpack', rhs, path))."""
  a = def_node.ast
  if def_node.kind == 'stmt' and isinstance(a, ast.Assign):
    for t in a.targets:
      if isinstance(t, ast.Name) and t.id == name:
        return a.value
      if isinstance(t, (ast.Tuple, ast.List)):
        p = _unpack_path(t, name)
        if p is not None:
          if isinstance(a.value, (ast.Tuple, ast.List)):
            v = a.value
            try:
              for i in p:
                v = v.elts[i]
              return v
            except Exception:
              pass
          return ('unpack', a.value, p)
  if def_node.kind == 'stmt' and isinstance(a, ast.AugAssign):
    return ('aug', a)
  if def_node.kind == 'loop' and isinstance(def_node.owner, ast.For):
    p = _unpack_path(def_node.owner.target, name)
    return ('elem', def_node.owner.iter, p)
  return None


def _unpack_path(target, name):
  if isinstance(target, ast.Name):
    return () if target.id == name else None
  if isinstance(target, (ast.Tuple, ast.List)):
    for i, e in enumerate(target.elts):
      p = _unpack_path(e, name)
      if p is not None:
        return (i,) + p
  return None


def edge_is(lab, polarity, pred):
  return isinstance(lab, tuple) and lab[0] == polarity and pred(lab[1])


def with_lock_blocks(fn, lock_attr='lock'):
  """ast.With statements in fn whose context is self.<lock_attr>."""
  out = []
  for n in walk_no_nested(fn.node, include_self=False):
    if isinstance(n, ast.With):
      for i in n.items:
        d = dotted(i.context_expr)
        if d and d.endswith('.' + lock_attr):
          out.append(n)
  return out


def inside(node, container):
  return any(x is node for x in ast.walk(container))


def stmt_of(node):
  """The nearest enclosing statement of an expression node."""
  n = node
  while n is not None and not isinstance(n, ast.stmt):
    n = getattr(n, '_parent', None)
  return n


def short(node, n=70):
  t = norm(node)
  return t if len(t) <= n else t[:n - 3] + '...'


def path_text(cfg, path):
  return cfg.describe_path(path) if path else ''


def local_sources(fn, name, _seen=None):
  """every expression a local name can hold in ``fn``, following plain copies (x = y) transitively and ignoring the
  ``None`` initialiser of a spliced helper's result variable.  Parameters yield ('param', name)."""
  seen = _seen if _seen is not None else set()
  if name in seen:
    return []
  seen.add(name)
  out = []
  if name in fn.params:
    out.append(('param', name))
  for n in walk_no_nested(fn.node, include_self=False):
    if isinstance(n, ast.Assign):
      for t in n.targets:
        if isinstance(t, ast.Name) and t.id == name:
          v = n.value
          if isinstance(v, ast.Name):
            out.extend(local_sources(fn, v.id, seen))
          elif isinstance(v, ast.Constant) and v.value is None and name.startswith('__ret'):
            continue
          else:
            out.append(v)
        elif isinstance(t, (ast.Tuple, ast.List)) and any(isinstance(e, ast.Name) and e.id == name for e in t.elts):
          out.append(('unpack', n.value))
    elif isinstance(n, (ast.AugAssign, ast.AnnAssign)) and isinstance(n.target, ast.Name) and n.target.id == name:
      out.append(('aug', n))
    elif isinstance(n, (ast.For, ast.comprehension)) and any(isinstance(x, ast.Name) and x.id == name for x in ast.walk(n.target)):
      out.append(('iter', n.iter))
    elif isinstance(n, ast.withitem) and n.optional_vars is not None and \
        any(isinstance(x, ast.Name) and x.id == name for x in ast.walk(n.optional_vars)):
      out.append(('with', n.context_expr))
  return out


def resolve_copies(fn, expr):
  """the expressions ``expr`` can stand for: itself, or - for a local name - its sources (see local_sources)."""
  if isinstance(expr, ast.Name) and expr.id not in fn.params:
    src = local_sources(fn, expr.id)
    if src:
      return src
  return [expr]


def receiver_names(cx, fn, method):
  """global / parameter names the method ``method`` is invoked on inside ``fn``, receivers resolved per path
  (sa/paths.py): a loop over a literal tuple of names counts for each of its elements."""
  from .paths import PathExec
  g = cx.cfg(fn)
  nodes = nodes_calling(g, lambda c: isinstance(c.func, ast.Attribute) and c.func.attr == method)
  out = {}
  px = PathExec(cx, fn, unroll=0, follow_exceptions=False)

  def names(t):
    if not isinstance(t, tuple):
      return []
    if t[0] == 'param':
      return [t[1]]
    if t[0] == 'elem' and isinstance(t[1], tuple) and t[1][0] in ('tuple', 'list'):
      return [n for x in t[1][1:] for n in names(x)]
    if t[0] == 'either':
      return [n for x in t[1:] for n in names(x)]
    return []
  for hit in px.run(nodes):
    for c in g.calls(hit.node):
      if isinstance(c.func, ast.Attribute) and c.func.attr == method:
        for n in names(hit.term(c.func.value, px)):
          out.setdefault(n, c)
  return out


class ValueNumbers(object):
  """Value numbering of one function over reaching definitions: ``term(expr, at)`` evaluates an expression as seen at
  CFG node ``at`` to a sa/symeval.py term in which every local stands for the term of the definition that reaches
  ``at`` (when exactly one does, or all reaching definitions have the same term).  Two expressions with equal terms
  denote the same value, which replaces comparisons of variable *names* and survives renamed / duplicated temporaries."""

  def __init__(self, cx, fn, multi=False):
    from .symeval import SymEval
    self.cx = cx
    self.fn = fn
    self.multi = multi       # several reaching definitions with different terms -> ('either', ...) instead of the bare name
    self.g = cx.cfg(fn)
    self.se = SymEval(cx)
    self._memo = {}
    self._busy = set()

  def _def_term(self, name, d):
    """term bound to ``name`` by definition node d"""
    key = (name, d.id)
    if key in self._memo:
      return self._memo[key]
    if key in self._busy:
      return ('param', name)
    self._busy.add(key)
    try:
      out = ('param', name)
      v = value_assigned(d, name)
      if isinstance(v, ast.AST):
        out = self.term(v, d)
      elif isinstance(v, tuple) and v[0] in ('unpack', 'elem'):
        base = self.term(v[1], d)
        if v[0] == 'elem':
          from .symeval import elem_of
          base = elem_of(base)
        for i in (v[2] or ()):
          if base[0] in ('tuple', 'list') and i < len(base) - 1:
            base = base[1 + i]
          else:
            base = ('field', base, i)
        out = base
      elif d.kind == 'with' and d.owner is not None:
        for it in d.owner.items:
          if isinstance(it.optional_vars, ast.Name) and it.optional_vars.id == name:
            out = ('call', 'enter', self.term(it.context_expr, d))
    finally:
      self._busy.discard(key)
    self._memo[key] = out
    return out

  def name_term(self, name, at):
    if at is None:
      return ('param', name)
    k2 = ('@', name, at.id)
    if k2 in self._memo:
      return self._memo[k2]
    rds = reaching_defs(self.g, name, at)
    out = ('param', name)
    if rds and self.g.entry not in rds:
      ts = {self._def_term(name, d) for d in rds}
      if len(ts) == 1:
        out = ts.pop()
      elif self.multi:
        from .symeval import either
        out = either(*sorted(ts, key=repr))
    self._memo[k2] = out
    return out

  def term(self, expr, at=None):
    """term of ``expr`` evaluated at CFG node ``at`` (a Node, or an ast node contained in one)."""
    if at is not None and not hasattr(at, 'succ'):
      nodes = self.g.node_containing(at) or self.g.nodes_of(at)
      at = nodes[0] if nodes else None
    from .symeval import canon
    return canon(self.se.ev(expr, _LazyEnv(self, at), self.fn))


class _LazyEnv(dict):
  def __init__(self, vn, at):
    dict.__init__(self)
    self.vn = vn
    self.at = at

  def _local(self, k):
    return bool(defs_of(self.vn.g, k))

  def get(self, k, default=None):
    if not self._local(k):
      return default if default is not None else ('param', k)
    return self.vn.name_term(k, self.at)

  def __contains__(self, k):
    return self._local(k)

  def __getitem__(self, k):
    return self.vn.name_term(k, self.at)

  def copy(self):
    return self


def conf_defaults(repo):
  """{setting name: value ast} of the `defaults = dict(...)` / `defaults = {...}` table of carbon.conf (None when absent)."""
  conf = repo.module('carbon.conf')
  for st in conf.tree.body:
    if isinstance(st, ast.Assign) and any(isinstance(t, ast.Name) and t.id == 'defaults' for t in st.targets):
      v = st.value
      if isinstance(v, ast.Call) and isinstance(v.func, ast.Name) and v.func.id == 'dict' and not v.args:
        return {k.arg: k.value for k in v.keywords if k.arg}
      if isinstance(v, ast.Dict):
        return {k.value: val for k, val in zip(v.keys, v.values) if isinstance(k, ast.Constant)}
  return None


def settings_miss_exceptions(repo):
  """names of the exception classes `settings.<UNSET OPTION>` raises, read off carbon.conf.Settings.__getattr__."""
  conf = repo.module('carbon.conf')
  for cls in ast.walk(conf.tree):
    if isinstance(cls, ast.ClassDef) and cls.name == 'Settings':
      for st in cls.body:
        if isinstance(st, ast.Assign) and any(isinstance(t, ast.Name) and t.id == '__getattr__' for t in st.targets):
          return {'KeyError'} if 'getitem' in ast.unparse(st.value) else {'AttributeError'}
        if isinstance(st, ast.FunctionDef) and st.name == '__getattr__':
          raised = set()
          for x in ast.walk(st):
            if isinstance(x, ast.Raise) and x.exc is not None:
              e = x.exc.func if isinstance(x.exc, ast.Call) else x.exc
              raised.add(ast.unparse(e).split('.')[-1])
          caught = {ast.unparse(h.type) for t in ast.walk(st) if isinstance(t, ast.Try) for h in t.handlers if h.type is not None}
          subs = [x for x in ast.walk(st) if isinstance(x, ast.Subscript)]
          if subs and 'KeyError' not in caught and not any(isinstance(t, ast.Try) and any(h.type is None for h in t.handlers) for t in ast.walk(st)):
            raised.add('KeyError')
          return raised or {'AttributeError'}
      return {'AttributeError'}        # a dict subclass without __getattr__
  return None
