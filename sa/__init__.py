"""Static analysis of graphite-project/carbon (see /verif/DESIGN.md).

Nothing in this package imports or runs carbon: every verdict is decided from
the parsed source of the repository's current working tree.
"""
__version__ = '1.0'
