"""Path-wise symbolic execution over a function's CFG (no solver: terms are compared structurally).

``PathExec(cx, fn).run(targets)`` walks every acyclic-ish path of the CFG from the entry (each loop head at most
``unroll`` times per path), keeping per path

  * ``env``   local name -> term (sa/symeval.py terms; assignments are executed, nothing is joined),
  * ``conds`` the branch decisions taken: (polarity, test term, test ast, cfg node); an exception edge into a handler
              is recorded as ('X', ('raised', <terms of the calls of the raising statement>...), statement, handler node),
  * ``trail`` the CFG nodes visited,

and yields a ``Hit`` whenever the path arrives at one of the ``targets`` (before executing it).  Test terms are
structured:  ('cmp', op, l, r) | ('truth', t) | ('isinstance', t, names) | ('in', l, r) | ('call', ...) .

Rules written on top of it state their obligation per path ("on a path where the -1 test was true the dispatched
timestamp term is now()"), which makes them independent of how the code names its locals, orders independent
statements or splits work over helpers (helpers are already spliced in by sa/inline.py).
"""
import ast

from .model import unparse, dotted
from .symeval import SymEval, alternatives, elem_of


class Hit(object):
  __slots__ = ('node', 'env', 'conds', 'trail')

  def __init__(self, node, env, conds, trail):
    self.node = node
    self.env = env
    self.conds = conds
    self.trail = trail

  def term(self, expr, px):
    return px.ev(expr, self.env)

  def decided(self, pred):
    """polarity of the (last) decision on this path whose test term satisfies pred; None if never tested."""
    out = None
    for pol, t, a, n in self.conds:
      if pred(t):
        out = pol
    return out

  def describe(self):
    return ' -> '.join('%s@%d' % (n.kind, n.lineno) for n in self.trail[-12:])


class PathExec(object):
  def __init__(self, cx, fn, unroll=1, max_paths=4000, follow_exceptions=True, assume=None, fold_tables=True):
    self.fold_tables = fold_tables    # replace TABLE[<constant>] by the entry of a literal module-level TABLE
    self.assume = dict(assume or {})      # term -> term: configuration values fixed for this run
    self.cx = cx
    self.fn = fn
    self.g = cx.cfg(fn)
    self.se = SymEval(cx)
    self.unroll = unroll
    self.max_paths = max_paths
    self.follow_exceptions = follow_exceptions
    self.truncated = False
    self.globals = self._module_constants()

  # ------------------------------------------------------------ terms
  def _module_constants(self):
    out = {}
    for name, vals in self.fn.module.globals.items():
      if len(vals) == 1 and isinstance(vals[0], ast.Constant):
        out[name] = ('const', vals[0].value)
      elif len(vals) == 1 and isinstance(vals[0], ast.UnaryOp) and isinstance(vals[0].op, ast.USub) and \
          isinstance(vals[0].operand, ast.Constant) and isinstance(vals[0].operand.value, (int, float)):
        out[name] = ('const', -vals[0].operand.value)
      elif len(vals) == 1 and isinstance(vals[0], ast.BinOp) and _fold(vals[0]) is not None:
        out[name] = ('const', _fold(vals[0]))
      elif len(vals) == 1 and isinstance(vals[0], ast.Call) and isinstance(vals[0].func, ast.Name) and vals[0].func.id == 'float' and \
          len(vals[0].args) == 1 and isinstance(vals[0].args[0], ast.Constant) and vals[0].args[0].value in ('inf', 'Inf', 'infinity'):
        out[name] = ('const', float('inf'))
    return out

  def ev(self, expr, env):
    if isinstance(expr, ast.UnaryOp) and isinstance(expr.op, ast.USub) and isinstance(expr.operand, ast.Constant) and \
       isinstance(expr.operand.value, (int, float)):
      return ('const', -expr.operand.value)
    e = env
    if self.globals:
      e = dict(self.globals)
      e.update(env)
      for p in self.fn.params:
        e.setdefault(p, ('param', p))
    return self._norm(self.se.ev(expr, e, self.fn))

  def _module_dict(self, name):
    """{constant key: value ast} of a module-level literal dict bound once to ``name`` (None otherwise)."""
    vals = self.fn.module.globals.get(name, [])
    if len(vals) != 1 or not isinstance(vals[0], ast.Dict):
      return None
    out = {}
    for k, v in zip(vals[0].keys, vals[0].values):
      if not isinstance(k, ast.Constant):
        return None
      out[k.value] = v
    return out

  def _norm(self, t):
    """-1 written as USub(1) inside larger terms; assumed configuration values; lookups in module-level literal dicts."""
    if not isinstance(t, tuple) or not t:
      return t
    if t in self.assume:
      return self.assume[t]
    if t == ('call', 'float', ('const', 'inf')):
      return ('const', float('inf'))
    if t[0] == 'call' and t[1] == 'bool' and len(t) == 3:
      inner = self._norm(t[2])
      if isinstance(inner, tuple) and inner[0] == 'const':
        return ('const', bool(inner[1]))
      return ('call', 'bool', inner)
    if t[0] == 'binop' and len(t) == 4:
      l, r = self._norm(t[2]), self._norm(t[3])
      if isinstance(l, tuple) and isinstance(r, tuple) and l[0] == 'const' and r[0] == 'const' and \
         all(isinstance(x[1], int) and not isinstance(x[1], bool) for x in (l, r)):
        v = _fold_op(t[1], l[1], r[1])
        if v is not None:
          return ('const', v)
      return ('binop', t[1], l, r)
    # TABLE[k] / TABLE.get(k[, default]) with a constant key and a literal module-level TABLE
    tab = key = default = None
    has_default = False
    if t[0] == 'sub' and isinstance(t[1], tuple) and t[1][0] == 'param':
      tab, key = t[1][1], self._norm(t[2]) if isinstance(t[2], tuple) else ('const', t[2])
    elif t[0] == 'meth' and t[1] == 'get' and isinstance(t[2], tuple) and t[2][0] == 'param' and len(t) in (4, 5):
      tab, key = t[2][1], self._norm(t[3])
      has_default, default = True, (self._norm(t[4]) if len(t) == 5 else ('const', None))
    elif t[0] == 'call' and t[1].endswith('.get') and t[1].count('.') == 1 and len(t) in (3, 4):
      tab, key = t[1].split('.')[0], self._norm(t[2])
      has_default, default = True, (self._norm(t[3]) if len(t) == 4 else ('const', None))
    # the same on a dict literal held in a local variable
    lit = None
    if t[0] == 'sub' and isinstance(t[1], tuple) and t[1][0] == 'dict':
      lit, key = t[1], (self._norm(t[2]) if isinstance(t[2], tuple) else ('const', t[2]))
    elif t[0] == 'meth' and t[1] == 'get' and isinstance(t[2], tuple) and t[2][0] == 'dict' and len(t) in (4, 5):
      lit, key = t[2], self._norm(t[3])
      has_default, default = True, (self._norm(t[4]) if len(t) == 5 else ('const', None))
    if lit is not None and isinstance(key, tuple) and key[0] == 'const':
      for item in lit[1:]:
        if item[1] == key:
          return self._norm(item[2])
      if has_default:
        return default
    if tab is not None and self.fold_tables and isinstance(key, tuple) and key[0] == 'const' and tab not in self.fn.params:
      d = self._module_dict(tab)
      if d is not None:
        try:
          if key[1] in d:
            return self._norm(self.se.ev(d[key[1]], dict(self.globals), self.fn))
        except TypeError:
          d = None
        if d is not None and has_default:
          return default
    if t[0] == 'call' and len(t) == 3 and t[1] == 'USub' and isinstance(t[2], tuple) and t[2][0] == 'const' and \
       isinstance(t[2][1], (int, float)):
      return ('const', -t[2][1])
    return tuple(self._norm(x) if isinstance(x, tuple) else x for x in t)

  def test_term(self, test, env):
    t, flip, _a = self._test_term(test, env)
    return ('neg', t) if flip else t

  def _test_term(self, test, env):
    """(term, flip, inner test ast): `(<test>) == True`, `is False`, `not <test>` are the inner test with the polarity
    kept / flipped"""
    if isinstance(test, ast.Compare) and len(test.ops) == 1 and isinstance(test.ops[0], (ast.Eq, ast.NotEq, ast.Is, ast.IsNot)):
      for a, b in ((test.left, test.comparators[0]), (test.comparators[0], test.left)):
        bt = self.ev(b, env)
        if isinstance(bt, tuple) and bt[0] == 'const' and isinstance(bt[1], bool) and isinstance(a, (ast.Compare, ast.Call, ast.BoolOp, ast.UnaryOp)):
          inner, f0, ia = self._test_term(a, env)
          same = isinstance(test.ops[0], (ast.Eq, ast.Is)) == bt[1]
          return inner, f0 != (not same), ia
    if isinstance(test, ast.UnaryOp) and isinstance(test.op, ast.Not):
      inner, f0, ia = self._test_term(test.operand, env)
      return inner, not f0, ia
    return self._test_term0(test, env), False, test

  def _test_term0(self, test, env):
    if isinstance(test, ast.Compare) and len(test.ops) == 1:
      op = type(test.ops[0]).__name__
      l, r = self.ev(test.left, env), self.ev(test.comparators[0], env)
      if op in ('In', 'NotIn'):
        return ('in' if op == 'In' else 'notin', l, r)
      return ('cmp', op, l, r)
    if isinstance(test, ast.Call) and isinstance(test.func, ast.Name) and test.func.id == 'isinstance' and len(test.args) == 2:
      ty = test.args[1]
      names = tuple(unparse(e) for e in ty.elts) if isinstance(ty, ast.Tuple) else (unparse(ty),)
      return ('isinstance', self.ev(test.args[0], env), names)
    if isinstance(test, ast.Call):
      return self.ev(test, env)
    t = self.ev(test, env)
    if isinstance(t, tuple) and t[0] in ('cmp', 'in', 'notin'):
      return t               # a flag that holds the outcome of a comparison made earlier on the path
    return ('truth', t)

  # ------------------------------------------------------------ walking
  def run(self, targets, start=None):
    """yield a Hit for every path prefix that arrives at a target node (paths begin at the function entry, or at each of
    the ``start`` nodes with an empty environment)."""
    targets = set(targets)
    count = [0]
    stack = [(n0, {}, (), (), {}, frozenset()) for n0 in (start if start else [self.g.entry])]
    while stack:
      node, env, conds, trail, visits, facts = stack.pop()
      if node in targets:
        count[0] += 1
        yield Hit(node, env, conds, trail + (node,))
        if count[0] >= self.max_paths:
          self.truncated = True
          return
      if node is self.g.exit or node is self.g.raise_exit:
        continue
      v = visits.get(node.id, 0)
      if v > self.unroll:
        continue
      visits = dict(visits)
      visits[node.id] = v + 1
      env_after = self._execute(node, env)
      facts_after = facts | self._derefs(node, env)
      for (m, lab) in node.succ:
        if lab == 'exc':
          if not self.follow_exceptions:
            continue
          calls = ()
          if node.ast is not None:
            from .model import walk_no_nested
            calls = tuple(self.ev(c, env) for c in walk_no_nested(node.ast) if isinstance(c, ast.Call))
          xc = conds + (('X', ('raised',) + calls, node.ast, m),)
          stack.append((m, dict(env), xc, trail + (node,), visits, facts))
          continue
        c = conds
        if isinstance(lab, tuple) and lab[0] in ('T', 'F') and node.kind == 'test':
          tt, flip, inner_ast = self._test_term(lab[1], env)
          pol_ = lab[0] if not flip else ('F' if lab[0] == 'T' else 'T')
          known = static_truth(tt, facts_after)
          if known is not None and known != (pol_ == 'T'):
            continue            # the outcome of this test is fixed by the constants on the path
          prev = [pol for pol, t0, a0, n0 in conds if t0 == tt]
          if prev and prev[-1] != pol_ and pure(tt):
            continue            # the same pure test was decided the other way earlier on this path
          c = conds + ((pol_, tt, inner_ast, node),)
        elif isinstance(lab, tuple) and lab[0] in ('T', 'F') and node.kind == 'loop':
          c = conds + ((lab[0], ('loop', unparse(lab[1])), lab[1], node),)
        stack.append((m, dict(env_after), c, trail + (node,), visits, facts_after))
      if len(stack) > 200000:
        self.truncated = True
        return

  def _derefs(self, node, env):
    """terms that were subscripted / had an attribute read by this node: they are not None afterwards."""
    if node.ast is None or node.kind not in ('stmt', 'test', 'iter'):
      return frozenset()
    from .model import walk_no_nested
    out = set()
    for x in walk_no_nested(node.ast):
      if isinstance(x, (ast.Subscript, ast.Attribute)) and isinstance(x.ctx, ast.Load) and isinstance(x.value, ast.Name):
        out.add(self.ev(x.value, env))
      elif isinstance(x, ast.Assign) and any(isinstance(t, (ast.Tuple, ast.List)) for t in x.targets) and isinstance(x.value, ast.Name):
        out.add(self.ev(x.value, env))
    return frozenset(out)

  def _execute(self, node, env):
    a = node.ast
    if node.kind == 'stmt' and a is not None:
      env = dict(env)
      if isinstance(a, ast.Assign):
        v = self.ev(a.value, env)
        for t in a.targets:
          self._bind(t, v, env)
      elif isinstance(a, ast.AugAssign) and isinstance(a.target, ast.Name):
        env[a.target.id] = ('binop', type(a.op).__name__, env.get(a.target.id, ('param', a.target.id)), self.ev(a.value, env))
      elif isinstance(a, ast.AnnAssign) and a.value is not None:
        self._bind(a.target, self.ev(a.value, env), env)
      return env
    if node.kind == 'loop' and isinstance(node.owner, (ast.For, ast.AsyncFor)):
      env = dict(env)
      self._bind(node.owner.target, elem_of(self.ev(node.owner.iter, env)), env)
      return env
    if node.kind == 'handler' and a is not None and a.name:
      env = dict(env)
      env[a.name] = ('exc',)
      return env
    if node.kind == 'with' and node.owner is not None:
      env = dict(env)
      for i in node.owner.items:
        if i.optional_vars is not None:
          self._bind(i.optional_vars, ('call', 'enter', self.ev(i.context_expr, env)), env)
      return env
    return env

  def _bind(self, tgt, v, env):
    if isinstance(tgt, ast.Name):
      env[tgt.id] = v
    elif isinstance(tgt, (ast.Tuple, ast.List)):
      self.se.bind(tgt, v, env)
    elif isinstance(tgt, (ast.Attribute, ast.Subscript)):
      key = unparse(tgt).replace(' ', '')
      env['@' + key] = v


def mentions(term, pred):
  """does any sub-term satisfy pred?"""
  if pred(term):
    return True
  if isinstance(term, tuple):
    return any(mentions(x, pred) for x in term[1:] if isinstance(x, tuple))
  return False


NOT_NONE = ('tuple', 'list', 'fmt', 'binop', 'comp')


def _definitely_not_none(t):
  if not isinstance(t, tuple):
    return False
  if t[0] in NOT_NONE:
    return True
  if t[0] == 'const':
    return t[1] is not None
  if t[0] == 'call' and t[1] in ('int', 'float', 'str', 'len', 'list', 'tuple', 'dict', 'set', 'sorted', 'repr', 'bool', 'time.time', 'time'):
    return True
  return False


def static_truth(t, nonnull=frozenset()):
  """True / False when the test term has the same outcome in every execution, else None."""
  if not isinstance(t, tuple):
    return None
  if t[0] == 'truth':
    x = t[1]
    if isinstance(x, tuple) and x[0] == 'const':
      return bool(x[1])
    if isinstance(x, tuple) and x[0] in ('tuple', 'list'):
      return len(x) > 1
    return None
  if t[0] == 'cmp':
    op, a, b = t[1], t[2], t[3]
    ca, cb = isinstance(a, tuple) and a[0] == 'const', isinstance(b, tuple) and b[0] == 'const'
    if ca and cb:
      x, y = a[1], b[1]
      same = x is y or (type(x) is type(y) and x == y and isinstance(x, (bool, int, str, type(None))))
      try:
        if op == 'Eq':
          return x == y
        if op == 'NotEq':
          return x != y
        if op == 'Is':
          return same
        if op == 'IsNot':
          return not same
        if op == 'Lt':
          return x < y
        if op == 'LtE':
          return x <= y
        if op == 'Gt':
          return x > y
        if op == 'GtE':
          return x >= y
      except TypeError:
        return None
      return None
    if op in ('Is', 'IsNot', 'Eq', 'NotEq'):
      for c, o in ((a, b), (b, a)):
        if c == ('const', None) and (_definitely_not_none(o) or o in nonnull):
          return op in ('IsNot', 'NotEq')
  return None


def pure(t):
  """no call to anything but conversions: the term has the same value wherever it is evaluated on a path."""
  if not isinstance(t, tuple):
    return True
  if t[0] in ('call', 'meth', 'opaque', 'elem'):
    if t[0] == 'call' and t[1] in ('int', 'float', 'str', 'len', 'isinstance', 'bool', 'abs', 'USub', 'Not', 'math.isnan', 'isnan'):
      return all(pure(x) for x in t[2:])
    return False
  return all(pure(x) for x in t[1:] if isinstance(x, tuple))


def _fold_op(op, a, b):
  try:
    if op == 'Add':
      return a + b
    if op == 'Sub':
      return a - b
    if op == 'Mult':
      return a * b
    if op == 'Pow' and 0 <= b <= 64 and abs(a) <= 1 << 16:
      return a ** b
    if op == 'LShift' and 0 <= b <= 64:
      return a << b
    if op == 'BitOr':
      return a | b
    if op == 'BitAnd':
      return a & b
  except Exception:
    return None
  return None


def _fold(e):
  """integer value of a constant arithmetic expression, else None"""
  if isinstance(e, ast.Constant) and isinstance(e.value, int) and not isinstance(e.value, bool):
    return e.value
  if isinstance(e, ast.BinOp):
    l, r = _fold(e.left), _fold(e.right)
    if l is None or r is None:
      return None
    return _fold_op(type(e.op).__name__, l, r)
  return None


def unguarded_exit(cx, fn, sources, barrier, unroll=1, follow_exceptions=False, max_paths=3000):
  """Path-sensitive must-pass query: (source node, Hit) for a feasible path of ``fn`` that runs a node of ``sources`` and then
  reaches the normal exit without running a node of ``barrier`` afterwards; None when every such path passes the barrier;
  'truncated' when the function has too many paths to decide this way (the caller falls back to plain reachability).
  Feasible = not contradicted by the constants / not-None facts / repeated pure tests on the path (static_truth)."""
  px = PathExec(cx, fn, unroll=unroll, max_paths=max_paths, follow_exceptions=follow_exceptions)
  g = px.g
  sources, barrier = set(sources), set(barrier)
  for hit in px.run({g.exit}):
    last_src = None
    for n in hit.trail:
      if n in barrier:
        last_src = None
      elif n in sources:
        last_src = n
    if last_src is not None:
      return last_src, hit
  if px.truncated:
    return 'truncated'
  return None


def feasible_exit_avoiding(cx, fn, avoid, unroll=1, follow_exceptions=False, max_paths=3000):
  """a Hit for a feasible path from the entry of ``fn`` to its normal exit that runs no node of ``avoid``; None if there
  is none; 'truncated' when there are too many paths to tell."""
  px = PathExec(cx, fn, unroll=unroll, max_paths=max_paths, follow_exceptions=follow_exceptions)
  avoid = set(avoid)
  for hit in px.run({px.g.exit}):
    if not any(n in avoid for n in hit.trail):
      return hit
  return 'truncated' if px.truncated else None
