"""Facts about carbon.client.CarbonClientFactory's send queue shared by C07, C09, C15."""
import ast

from .model import dotted, unparse, norm, walk_no_nested, AnchorMissing
from .rulelib import short

QUEUE_OPS = {'append', 'appendleft', 'extend', 'extendleft', 'pop', 'popleft', 'clear', 'remove', 'rotate',
             'insert', 'reverse', 'sort', '__setitem__', '__delitem__'}


class QueueOp(object):
  def __init__(self, op, node, fn, recv):
    self.op = op
    self.node = node
    self.fn = fn
    self.recv = recv

  def __repr__(self):
    return '<%s in %s @%d>' % (self.op, self.fn.qualname, getattr(self.node, 'lineno', 0))


class ClientModel(object):
  def __init__(self, cx):
    self.cx = cx
    self.repo = cx.repo
    self.T = cx.types
    self.mod = self.repo.module('carbon.client')
    self.factory = self.mod.cls('CarbonClientFactory')
    self.protocol = self.mod.cls('CarbonClientProtocol')
    self.qattr = 'queue'
    init = self.factory.methods.get('__init__')
    if init is None or not any(
        isinstance(n, ast.Assign) and any(dotted(t) == 'self.' + self.qattr for t in n.targets) and
        isinstance(n.value, ast.Call) and (dotted(n.value.func) or '').endswith('deque')
        for n in walk_no_nested(init.node, include_self=False)):
      raise AnchorMissing('CarbonClientFactory.__init__ no longer creates self.queue = deque()')
    self.ops = self._collect_ops()

  def is_factory_expr(self, e, module, fn):
    ts = self.T.expr_types(e, module, fn)
    return any(t[0] == 'inst' and self.repo.is_subclass(t[1], self.factory) for t in ts)

  def is_queue_expr(self, e, module, fn):
    """e denotes <CarbonClientFactory instance>.queue"""
    return isinstance(e, ast.Attribute) and e.attr == self.qattr and self.is_factory_expr(e.value, module, fn)

  def _collect_ops(self):
    out = []
    for f in self.repo.all_functions():
      if f.module.name != 'carbon.client' and 'queue' not in f.module.source:
        continue
      for n in walk_no_nested(f.node, include_self=False):
        if isinstance(n, ast.Call) and isinstance(n.func, ast.Attribute) and n.func.attr in QUEUE_OPS and \
           self.is_queue_expr(n.func.value, f.module, f):
          out.append(QueueOp(n.func.attr, n, f, n.func.value))
        elif isinstance(n, (ast.Assign, ast.AugAssign)):
          for t in (n.targets if isinstance(n, ast.Assign) else [n.target]):
            if self.is_queue_expr(t, f.module, f):
              out.append(QueueOp('rebind', n, f, t))
            if isinstance(t, ast.Subscript) and self.is_queue_expr(t.value, f.module, f):
              out.append(QueueOp('setitem', n, f, t.value))
        elif isinstance(n, ast.Delete):
          for t in n.targets:
            if isinstance(t, ast.Subscript) and self.is_queue_expr(t.value, f.module, f):
              out.append(QueueOp('delitem', n, f, t.value))
        elif isinstance(n, ast.Subscript) and isinstance(n.ctx, ast.Load) and isinstance(n.slice, ast.Slice) and \
            self.is_queue_expr(n.value, f.module, f):
          out.append(QueueOp('slice', n, f, n.value))
    return out

  def top_method(self, fn):
    """the class-level method a (possibly nested) function belongs to."""
    while fn.parent_fn is not None:
      fn = fn.parent_fn
    return fn

  def shrinkers(self):
    """factory methods that remove items from the queue (directly)."""
    return sorted({self.top_method(o.fn).name for o in self.ops if o.op in ('popleft', 'pop', 'clear', 'remove')
                   and self.top_method(o.fn).cls is not None and self.repo.is_subclass(self.top_method(o.fn).cls, self.factory)})

  def calls_factory_method(self, call, fn, name):
    """call is <factory expr>.<name>(...)"""
    f = call.func
    if not (isinstance(f, ast.Attribute) and f.attr == name):
      return False
    if self.is_factory_expr(f.value, fn.module, fn):
      return True
    return False
