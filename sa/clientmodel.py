"""Facts about carbon.client.CarbonClientFactory's send queue shared by C07, C09, C15."""
import ast

from .model import dotted, unparse, norm, walk_no_nested, AnchorMissing
from .rulelib import short

QUEUE_OPS = {'append', 'appendleft', 'extend', 'extendleft', 'pop', 'popleft', 'clear', 'remove', 'rotate',
             'insert', 'reverse', 'sort', '__setitem__', '__delitem__'}


class QueueOp(object):
  def __init__(self, op, node, fn, recv):
    self.op = op
    self.node = node
    self.fn = fn
    self.recv = recv

  def __repr__(self):
    return '<%s in %s @%d>' % (self.op, self.fn.qualname, getattr(self.node, 'lineno', 0))


class ClientModel(object):
  def __init__(self, cx):
    self.cx = cx
    self.repo = cx.repo
    self.T = cx.types
    self.mod = self.repo.module('carbon.client')
    self.factory = self.mod.cls('CarbonClientFactory')
    self.protocol = self.mod.cls('CarbonClientProtocol')
    self.qattr = 'queue'
    init = self.factory.methods.get('__init__')
    if init is None or not any(
        isinstance(n, ast.Assign) and any(dotted(t) == 'self.' + self.qattr for t in n.targets) and
        isinstance(n.value, ast.Call) and (dotted(n.value.func) or '').endswith('deque')
        for n in walk_no_nested(init.node, include_self=False)):
      raise AnchorMissing('CarbonClientFactory.__init__ no longer creates self.queue = deque()')
    self.ops = self._collect_ops()

  def is_factory_expr(self, e, module, fn):
    ts = self.T.expr_types(e, module, fn)
    return any(t[0] == 'inst' and self.repo.is_subclass(t[1], self.factory) for t in ts)

  def is_queue_expr(self, e, module, fn):
    """e denotes <CarbonClientFactory instance>.queue"""
    return isinstance(e, ast.Attribute) and e.attr == self.qattr and self.is_factory_expr(e.value, module, fn)

  def _collect_ops(self):
    out = []
    for f in self.repo.all_functions():
      if f.module.name != 'carbon.client' and 'queue' not in f.module.source:
        continue
      for n in walk_no_nested(f.node, include_self=False):
        if isinstance(n, ast.Call) and isinstance(n.func, ast.Attribute) and n.func.attr in QUEUE_OPS and \
           self.is_queue_expr(n.func.value, f.module, f):
          out.append(QueueOp(n.func.attr, n, f, n.func.value))
        elif isinstance(n, (ast.Assign, ast.AugAssign)):
          for t in (n.targets if isinstance(n, ast.Assign) else [n.target]):
            if self.is_queue_expr(t, f.module, f):
              out.append(QueueOp('rebind', n, f, t))
            if isinstance(t, ast.Subscript) and self.is_queue_expr(t.value, f.module, f):
              out.append(QueueOp('setitem', n, f, t.value))
        elif isinstance(n, ast.Delete):
          for t in n.targets:
            if isinstance(t, ast.Subscript) and self.is_queue_expr(t.value, f.module, f):
              out.append(QueueOp('delitem', n, f, t.value))
        elif isinstance(n, ast.Subscript) and isinstance(n.ctx, ast.Load) and isinstance(n.slice, ast.Slice) and \
            self.is_queue_expr(n.value, f.module, f):
          out.append(QueueOp('slice', n, f, n.value))
    return out

  def top_method(self, fn):
    """the class-level method a (possibly nested) function belongs to."""
    while fn.parent_fn is not None:
      fn = fn.parent_fn
    return fn

  def shrinkers(self):
    """factory methods that remove items from the queue (directly)."""
    return sorted({self.top_method(o.fn).name for o in self.ops if o.op in ('popleft', 'pop', 'clear', 'remove')
                   and self.top_method(o.fn).cls is not None and self.repo.is_subclass(self.top_method(o.fn).cls, self.factory)})

  def calls_factory_method(self, call, fn, name):
    """call is <factory expr>.<name>(...)"""
    f = call.func
    if not (isinstance(f, ast.Attribute) and f.attr == name):
      return False
    if self.is_factory_expr(f.value, fn.module, fn):
      return True
    return False


class BatchShape(object):
  """How CarbonClientFactory.takeSomeFromQueue builds the batch it returns, read off the (normalised) code whatever idiom it
  uses: a nested generator drained by list(), a list grown by append in a for / while loop, or a comprehension.

    productions   the expressions whose values become the elements of the returned list, in order
    problems      [(node, text)]: why the batch is not "exactly the items popped from the head of self.queue, in pop order"
    bound         None when at most settings.MAX_DATAPOINTS_PER_MESSAGE items are taken per call, else (node, text)
    quiet_empty   how an empty queue ends the batch without an error ('IndexError handler' / 'len(queue) bound' /
                  'queue tested'), or None
    loop          the loop / comprehension that produces the elements
  """

  LIMIT = ('attr', ('param', 'settings'), 'MAX_DATAPOINTS_PER_MESSAGE')

  def __init__(self, cx, tq):
    from .rulelib import ValueNumbers
    self.cx, self.tq = cx, tq
    self.vn = ValueNumbers(cx, tq)
    self.problems = []
    self.bound = (tq.node, 'the loop that fills the batch was not found')
    self.quiet_empty = None
    self.loop = None
    self.productions = []
    self.region = tq
    self.SELF = ('param', tq.params[0]) if tq.params else ('param', 'self')
    self.Q = ('attr', self.SELF, 'queue')
    self._analyse()

  # terms of expressions inside a nested generator see the enclosing function's single-assignment locals
  def term(self, e, at):
    from .rulelib import ValueNumbers
    if self.region is self.tq:
      return self.vn.term(e, at)
    t = ValueNumbers(self.cx, self.region).term(e, at)
    return self._outer(t)

  def _outer(self, t):
    if not isinstance(t, tuple):
      return t
    if t[0] == 'param' and isinstance(t[1], str) and t[1] not in self.region.params:
      defs = [s for s in walk_no_nested(self.tq.node, include_self=False) if isinstance(s, ast.Assign) and
              any(isinstance(x, ast.Name) and x.id == t[1] for x in s.targets)]
      if len(defs) == 1:
        return self.vn.term(defs[0].value, defs[0])
      return t
    return tuple(self._outer(x) for x in t)

  def _analyse(self):
    tq = self.tq
    rets = [r for r in walk_no_nested(tq.node, include_self=False) if isinstance(r, ast.Return)]
    if len(rets) != 1 or rets[0].value is None:
      self.problems.append((tq.node, 'takeSomeFromQueue does not have a single `return <batch>`'))
      return
    ret = rets[0]
    v = ret.value
    while isinstance(v, ast.Call) and isinstance(v.func, ast.Name) and v.func.id == 'list' and len(v.args) == 1 and not v.keywords and \
        isinstance(v.args[0], ast.Name):
      v = v.args[0]               # list(<list built above>): a copy, same elements in the same order
    # resolve `return batch` to the expression batch was built by, when that is one expression
    if isinstance(v, ast.Name):
      defs = [s for s in walk_no_nested(tq.node, include_self=False) if isinstance(s, ast.Assign) and
              any(isinstance(x, ast.Name) and x.id == v.id for x in s.targets)]
      if len(defs) == 1 and isinstance(defs[0].value, (ast.ListComp, ast.Call)) and not (
          isinstance(defs[0].value, ast.Call) and isinstance(defs[0].value.func, ast.Name) and defs[0].value.func.id == 'list' and
          not defs[0].value.args):
        grown = [c for c in ast.walk(tq.node) if isinstance(c, ast.Call) and isinstance(c.func, ast.Attribute) and
                 dotted(c.func.value) == v.id and c.func.attr in ('append', 'extend', 'insert', 'pop', 'remove', 'sort', 'reverse', 'clear')]
        if not grown:
          v = defs[0].value
    body_loops = None
    if isinstance(v, ast.Call) and isinstance(v.func, ast.Name) and v.func.id == 'list' and len(v.args) == 1 and \
       isinstance(v.args[0], ast.Call) and isinstance(v.args[0].func, ast.Name) and not v.args[0].args:
      gen = next((f for f in tq.module.all_functions() if f.parent_fn is tq and f.name == v.args[0].func.id), None)
      if gen is None:
        self.problems.append((ret, 'the batch is list(%s()), which is not a generator defined in takeSomeFromQueue' % v.args[0].func.id))
        return
      self.region = gen
      self.productions = [(y.value, y) for y in walk_no_nested(gen.node, include_self=False) if isinstance(y, ast.Yield)]
      scope = gen.node
    elif isinstance(v, ast.ListComp):
      if len(v.generators) != 1 or v.generators[0].ifs:
        self.problems.append((v, 'the batch is a filtered / nested comprehension'))
        return
      self.productions = [(v.elt, v)]
      self.loop = v
      scope = tq.node
    elif isinstance(v, ast.Name):
      apps = [c for c in ast.walk(tq.node) if isinstance(c, ast.Call) and isinstance(c.func, ast.Attribute) and dotted(c.func.value) == v.id]
      for c in apps:
        if c.func.attr != 'append' or len(c.args) != 1:
          self.problems.append((c, '`%s` changes the batch other than by appending one popped item' % unparse(c)[:60]))
      self.productions = [(c.args[0], c) for c in apps if c.func.attr == 'append' and len(c.args) == 1]
      scope = tq.node
    else:
      self.problems.append((ret, 'the returned batch `%s` is not built in a recognised way' % unparse(v)[:60]))
      return
    if not self.productions:
      self.problems.append((ret, 'nothing is put into the returned batch'))
      return
    self.scope = scope
    # ---- every production is one popleft() of self.queue, and every popleft() is produced
    pops = [c for c in ast.walk(scope) if isinstance(c, ast.Call) and isinstance(c.func, ast.Attribute) and
            c.func.attr in ('popleft', 'pop', 'popitem') and self.term(c.func.value, c) == self.Q]
    used = []
    for e, site in self.productions:
      src = e
      if isinstance(e, ast.Name):
        defs = [s for s in ast.walk(scope) if isinstance(s, ast.Assign) and any(isinstance(x, ast.Name) and x.id == e.id for x in s.targets)]
        src = defs[0].value if len(defs) == 1 else None
      if isinstance(src, ast.Call) and any(src is p for p in pops) and src.func.attr == 'popleft' and not src.args:
        used.append(src)
      else:
        self.problems.append((site, '`%s` puts something else than one item popped from the head of the queue into the batch'
                              % unparse(site)[:70]))
    for p in pops:
      if not any(p is u for u in used):
        self.problems.append((p, '`%s` takes an item from the queue that does not go into the batch (or not from the head)' % unparse(p)[:50]))
    if len(used) != len(set(id(u) for u in used)):
      self.problems.append((self.productions[0][1], 'one popped item is put into the batch more than once'))
    # ---- one loop, no skipping
    if self.loop is None:
      loops = []
      for e, site in self.productions:
        p = getattr(site, '_parent', None)
        chain = []
        while p is not None and p is not scope:
          if isinstance(p, (ast.For, ast.While)):
            chain.append(p)
          p = getattr(p, '_parent', None)
        loops.append(chain)
      if not all(len(ch) == 1 for ch in loops) or len({id(ch[0]) for ch in loops}) != 1:
        self.problems.append((self.productions[0][1], 'the batch is not filled by a single loop'))
        return
      self.loop = loops[0][0]
      if any(isinstance(x, ast.Continue) for x in ast.walk(self.loop)):
        self.problems.append((self.loop, 'the loop can skip (`continue`) after taking an item'))
      # between the pop and the production nothing may drop the item: the production is not under a condition
      for e, site in self.productions:
        p = getattr(site, '_parent', None)
        while p is not None and p is not self.loop:
          if isinstance(p, ast.If):
            self.problems.append((p, 'a popped item reaches the batch only when `%s`' % unparse(p.test)[:50]))
          p = getattr(p, '_parent', None)
    # ---- the bound
    self._bound()

  def _limit_term(self, t, allow_len=True):
    """'limit' if t is MAX_DATAPOINTS_PER_MESSAGE, 'limit+len' for min(MAX, len(queue)) in either order, else None"""
    if t == self.LIMIT:
      return 'limit'
    if isinstance(t, tuple) and t[0] == 'call' and t[1] == 'min' and len(t) == 4:
      a, b = t[2], t[3]
      LEN = ('call', 'len', self.Q)
      if (a == self.LIMIT and b == LEN) or (b == self.LIMIT and a == LEN):
        return 'limit+len'
    return None

  def _bound(self):
    lp = self.loop
    self.bound = (lp, 'takeSomeFromQueue does not take at most settings.MAX_DATAPOINTS_PER_MESSAGE items per call')
    it = None
    if isinstance(lp, ast.ListComp):
      it = lp.generators[0].iter
    elif isinstance(lp, ast.For) and not lp.orelse:
      it = lp.iter
    if it is not None:
      if isinstance(it, ast.Call) and isinstance(it.func, ast.Name) and it.func.id in ('range', 'xrange') and len(it.args) == 1 and not it.keywords:
        kind = self._limit_term(self.term(it.args[0], lp if not isinstance(lp, ast.ListComp) else self._stmt_of(lp)))
        if kind:
          self.bound = None
          if kind == 'limit+len':
            self.quiet_empty = 'len(queue) bound'
    elif isinstance(lp, ast.While):
      from .props.c15 import _bounded_while
      if _bounded_while(self.cx, self.region, [lp]):
        self.bound = None
      conj = lp.test.values if isinstance(lp.test, ast.BoolOp) and isinstance(lp.test.op, ast.And) else [lp.test]
      for t in conj:
        tt = self.term(t, lp)
        if tt == self.Q or tt == ('cmp', 'Gt', ('call', 'len', self.Q), ('const', 0)) or tt == ('call', 'len', self.Q):
          self.quiet_empty = 'queue tested'
    # an empty queue: popleft() raises IndexError, which ends the batch quietly
    if self.quiet_empty is None:
      for h in [h for h in ast.walk(self.scope) if isinstance(h, ast.ExceptHandler)]:
        names = unparse(h.type) if h.type is not None else ''
        if 'IndexError' in names and h.body and isinstance(h.body[-1], (ast.Return, ast.Break)) and \
           not any(isinstance(x, (ast.Yield,)) for x in ast.walk(h)):
          self.quiet_empty = 'IndexError handler'
        elif ('IndexError' in names or 'LookupError' in names) and lp is not None and \
            not any(isinstance(x, (ast.Yield, ast.Raise)) for x in ast.walk(h)):
          # the try encloses the whole loop (`try: for ...: batch.append(q.popleft())  except IndexError: pass`): the handler
          # ends the loop by construction; what follows the try still returns the batch built so far
          tr = getattr(h, '_parent', None)
          if isinstance(tr, ast.Try) and any(lp is s_ or any(lp is y for y in ast.walk(s_)) for s_ in tr.body) and \
             all(isinstance(x, (ast.Pass, ast.Expr)) for x in h.body):
            self.quiet_empty = 'IndexError handler around the loop'

  def _stmt_of(self, e):
    p = e
    while p is not None and not isinstance(p, ast.stmt):
      p = getattr(p, '_parent', None)
    return p
